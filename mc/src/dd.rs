//! Double-double arithmetic (~106 bits) for the reference models.
//! Error-free transformations (Knuth TwoSum, FMA-based TwoProd); relative error
//! of every operation is below 2^-100, i.e. irrelevant next to the property
//! tolerances (>= 1e-12).  Only finite operands are meaningful.

#[derive(Clone, Copy, Debug, PartialEq)]
pub struct Dd {
    pub hi: f64,
    pub lo: f64,
}

#[inline]
fn two_sum(a: f64, b: f64) -> (f64, f64) {
    let s = a + b;
    let bb = s - a;
    let e = (a - (s - bb)) + (b - bb);
    (s, e)
}

#[inline]
fn quick_two_sum(a: f64, b: f64) -> (f64, f64) {
    let s = a + b;
    let e = b - (s - a);
    (s, e)
}

#[inline]
fn two_prod(a: f64, b: f64) -> (f64, f64) {
    let p = a * b;
    let e = a.mul_add(b, -p);
    (p, e)
}

impl Dd {
    pub const ZERO: Dd = Dd { hi: 0.0, lo: 0.0 };
    pub const ONE: Dd = Dd { hi: 1.0, lo: 0.0 };

    #[inline]
    pub fn new(x: f64) -> Dd {
        Dd { hi: x, lo: 0.0 }
    }
    #[inline]
    pub fn f(self) -> f64 {
        self.hi + self.lo
    }
    #[inline]
    pub fn add(self, o: Dd) -> Dd {
        let (s, e) = two_sum(self.hi, o.hi);
        let (t, f) = two_sum(self.lo, o.lo);
        let e = e + t;
        let (s, e) = quick_two_sum(s, e);
        let e = e + f;
        let (hi, lo) = quick_two_sum(s, e);
        Dd { hi, lo }
    }
    #[inline]
    pub fn neg(self) -> Dd {
        Dd {
            hi: -self.hi,
            lo: -self.lo,
        }
    }
    #[inline]
    pub fn sub(self, o: Dd) -> Dd {
        self.add(o.neg())
    }
    #[inline]
    pub fn mul(self, o: Dd) -> Dd {
        let (p, e) = two_prod(self.hi, o.hi);
        let e = e + (self.hi * o.lo + self.lo * o.hi);
        let (hi, lo) = quick_two_sum(p, e);
        Dd { hi, lo }
    }
    #[inline]
    pub fn mulf(self, o: f64) -> Dd {
        self.mul(Dd::new(o))
    }
    #[inline]
    pub fn addf(self, o: f64) -> Dd {
        self.add(Dd::new(o))
    }
    #[inline]
    pub fn subf(self, o: f64) -> Dd {
        self.sub(Dd::new(o))
    }
    pub fn div(self, o: Dd) -> Dd {
        let q1 = self.hi / o.hi;
        let r = self.sub(o.mulf(q1));
        let q2 = r.hi / o.hi;
        let r = r.sub(o.mulf(q2));
        let q3 = r.hi / o.hi;
        let (q1, q2) = quick_two_sum(q1, q2);
        Dd { hi: q1, lo: q2 }.addf(q3)
    }
    #[inline]
    pub fn divf(self, o: f64) -> Dd {
        self.div(Dd::new(o))
    }
    pub fn abs(self) -> Dd {
        if self.hi < 0.0 || (self.hi == 0.0 && self.lo < 0.0) {
            self.neg()
        } else {
            self
        }
    }
    pub fn sqrt(self) -> Dd {
        if self.hi <= 0.0 {
            return Dd::ZERO;
        }
        let x = 1.0 / self.hi.sqrt();
        let ax = self.hi * x;
        let axd = Dd::new(ax);
        let diff = self.sub(axd.mul(axd));
        Dd::new(ax).addf(diff.hi * x * 0.5)
    }
    #[inline]
    pub fn lt(self, o: Dd) -> bool {
        self.hi < o.hi || (self.hi == o.hi && self.lo < o.lo)
    }
    #[inline]
    pub fn gt(self, o: Dd) -> bool {
        o.lt(self)
    }
    #[inline]
    pub fn is_zero(self) -> bool {
        self.hi == 0.0 && self.lo == 0.0
    }
    pub fn max(self, o: Dd) -> Dd {
        if self.lt(o) {
            o
        } else {
            self
        }
    }
}

/// Sum of f64 values in double-double.
pub fn sum(xs: impl Iterator<Item = f64>) -> Dd {
    let mut s = Dd::ZERO;
    for x in xs {
        s = s.addf(x);
    }
    s
}

#[cfg(test)]
mod tests {
    use super::*;
    #[test]
    fn basic() {
        let a = Dd::new(0.1).add(Dd::new(0.2));
        assert!((a.f() - 0.30000000000000004).abs() < 1e-16);
        let third = Dd::ONE.divf(3.0);
        let one = third.mulf(3.0);
        assert!((one.sub(Dd::ONE)).abs().f() < 1e-30);
        let s = Dd::new(2.0).sqrt();
        assert!(s.mul(s).subf(2.0).abs().f() < 1e-30);
    }
}
