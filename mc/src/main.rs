#![allow(dead_code)]
//! mc - model-checking harness for greyblake/ta-rs (see /verif/DESIGN.md).

mod alpha;
mod dd;
mod engine;
mod heap;
mod incref;
mod oracle;
mod props;
mod refm;
mod regimes;
mod report;
mod sched;
mod subjects;
mod types;
mod xcheck;

use engine::Ctx;

#[global_allocator]
static GLOBAL: heap::Counting = heap::Counting;
use std::time::Duration;

fn usage() -> ! {
    eprintln!("usage: mc check <C01..C18> [quick|thorough] | mc replay <file>");
    std::process::exit(2);
}

fn main() {
    let args: Vec<String> = std::env::args().collect();
    if args.len() < 3 {
        usage();
    }
    // glibc malloc returns freed memory to the kernel eagerly; with 16 threads building and
    // dropping millions of small indicators that costs 10x in system time.  Re-exec once with
    // trimming disabled (pure performance knob, no effect on any verdict).
    if std::env::var_os("MALLOC_TRIM_THRESHOLD_").is_none() {
        if let Ok(exe) = std::env::current_exe() {
            if let Ok(st) = std::process::Command::new(exe)
                .args(&args[1..])
                .env("MALLOC_TRIM_THRESHOLD_", "1073741824")
                .env("MALLOC_TOP_PAD_", "67108864")
                .env("MALLOC_MMAP_THRESHOLD_", "1073741824")
                .status()
            {
                std::process::exit(st.code().unwrap_or(2));
            }
        }
    }
    match args[1].as_str() {
        "replay" => std::process::exit(report::replay_file(&args[2])),
        // helper of C05 stage (I): output digests of one indicator for periods 1..=600 computed in THIS
        // (fresh) process, ascending or descending
        "digest" if args.len() >= 4 => {
            std::panic::set_hook(Box::new(|_| {}));
            std::process::exit(props::c05::digest_main(&args[2], &args[3]));
        }
        "check" => {}
        _ => usage(),
    }
    let prop = args[2].to_uppercase();
    let tier = args
        .get(3)
        .cloned()
        .or_else(|| std::env::var("VERIF_TIER").ok())
        .unwrap_or_else(|| "quick".to_string());
    let thorough = match tier.as_str() {
        "quick" => false,
        "thorough" => true,
        _ => usage(),
    };
    let seed: u64 = std::env::var("VERIF_SEED").ok().and_then(|s| s.parse::<i64>().ok()).map(|x| x as u64).unwrap_or(0);
    let budget = std::env::var("VERIF_BUDGET_S")
        .ok()
        .and_then(|s| s.parse::<u64>().ok())
        .unwrap_or(if thorough { 3000 } else { 240 });
    // panics inside the subject are caught and reported as violations; keep stderr quiet
    std::panic::set_hook(Box::new(|info| {
        let msg = info.to_string();
        if !msg.contains("a scoped thread panicked") {
            if let Ok(mut g) = LAST_PANIC.lock() {
                *g = msg.clone();
            }
        }
        if msg.contains("harness:") || std::env::var("VERIF_DEBUG").is_ok() {
            eprintln!("{}", msg);
        }
    }));
    // resident-set watchdog: a machinery exit (2), never a verdict, instead of an OOM kill
    std::thread::spawn(|| loop {
        std::thread::sleep(Duration::from_secs(2));
        if let Ok(t) = std::fs::read_to_string("/proc/self/statm") {
            let pages: u64 = t.split_whitespace().nth(1).and_then(|x| x.parse().ok()).unwrap_or(0);
            let gb = pages * 4096 / (1 << 30);
            let cap: u64 = std::env::var("VERIF_RSS_CAP_GB").ok().and_then(|s| s.parse().ok()).unwrap_or(40);
            if gb >= cap {
                println!("MACHINERY: resident set {} GB exceeds the cap of {} GB - aborting (not a verdict)", gb, cap);
                std::process::exit(2);
            }
        }
    });
    let ctx = Ctx::new(thorough, seed, Duration::from_secs(budget));
    // a panic that escapes the per-execution catch_unwind is a bug of this machinery, not a verdict
    let res = std::panic::catch_unwind(std::panic::AssertUnwindSafe(|| dispatch(&prop, &ctx)));
    let res = match res {
        Ok(r) => r,
        Err(_) => {
            println!("MACHINERY: the harness itself panicked ({}) - not a verdict", LAST_PANIC.lock().map(|g| g.replace('\n', " ")).unwrap_or_default());
            std::process::exit(2);
        }
    };
    std::process::exit(report::finish(&ctx, res));
}

static LAST_PANIC: std::sync::Mutex<String> = std::sync::Mutex::new(String::new());

fn dispatch(prop: &str, ctx: &Ctx) -> report::CheckResult {
    let ctx = ctx;
    let res = match prop {
        "C01" => props::c01::run(&ctx),
        "C02" => props::c02::run(&ctx),
        "C03" => props::c03::run(&ctx),
        "C04" => props::c04::run(&ctx),
        "C05" => props::c05::run(&ctx),
        "C06" => props::c06::run(&ctx),
        "C07" => props::c07::run(&ctx),
        "C08" => props::c08::run(&ctx),
        "C09" => props::c09::run(&ctx),
        "C10" => props::c10::run(&ctx),
        "C11" => props::c11::run(&ctx),
        "C12" => props::c12::run(&ctx),
        "C13" => props::c13::run(&ctx),
        "C14" => props::c14::run(&ctx),
        "C15" => props::c15::run(&ctx),
        "C16" => props::c16::run(&ctx),
        "C17" => props::c17::run(&ctx),
        "C18" => props::c18::run(&ctx),
        _ => {
            eprintln!("unknown or unclaimed property {}", prop);
            std::process::exit(2);
        }
    };
    res
}
