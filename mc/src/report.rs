//! Evidence files, replay artefacts, known findings, exit codes.

use crate::engine::*;
use crate::subjects::{Cfg, Kind};
use crate::types::*;
use serde_json::{json, Map, Value};
use std::path::{Path, PathBuf};

pub const VERIF_DIR: &str = "/verif";

/// Where evidence and replay files go (default /verif; the mutation audit
/// redirects it so that audits on scratch copies never touch /verif/evidence).
pub fn out_dir() -> String {
    std::env::var("VERIF_OUT_DIR").unwrap_or_else(|_| VERIF_DIR.to_string())
}

pub struct CheckResult {
    pub prop: &'static str,
    pub level: &'static str,
    pub out: JobOut,
    pub rule: String,
    pub exhaustive: bool,
    pub bounds: String,
    pub assumptions: Vec<String>,
    pub extra: Map<String, Value>,
    /// machinery problems (vacuity, engine disagreement): exit 2, never a verdict
    pub machinery_errors: Vec<String>,
}

impl CheckResult {
    pub fn new(prop: &'static str, level: &'static str) -> CheckResult {
        CheckResult {
            prop,
            level,
            out: JobOut::default(),
            rule: String::new(),
            exhaustive: true,
            bounds: String::new(),
            assumptions: Vec::new(),
            extra: Map::new(),
            machinery_errors: Vec::new(),
        }
    }
    pub fn absorb(&mut self, o: JobOut) {
        self.out.stats.merge(o.stats);
        self.out.violations.extend(o.violations);
    }
    pub fn require(&mut self, cond: bool, msg: &str) {
        if !cond {
            self.machinery_errors.push(msg.to_string());
        }
    }
}

pub fn cfg_json(cfg: &Cfg) -> Value {
    json!({
        "kind": cfg.kind.name(),
        "periods": cfg.periods(),
        "multiplier": if cfg.kind.has_mult() { Value::String(f2s(cfg.mult)) } else { Value::Null },
    })
}

pub fn cfg_from_json(v: &Value) -> Option<Cfg> {
    let kind = Kind::from_name(v.get("kind")?.as_str()?)?;
    let ps: Vec<usize> = v
        .get("periods")?
        .as_array()?
        .iter()
        .filter_map(|x| x.as_u64().map(|u| u as usize))
        .collect();
    let mut p = [0usize; 3];
    for (i, x) in ps.iter().enumerate().take(3) {
        p[i] = *x;
    }
    let mult = match v.get("multiplier") {
        Some(Value::String(s)) => s2f(s)?,
        _ => 0.0,
    };
    Some(Cfg { kind, p, mult })
}

/// A plain `#[test]` that replays the history with nothing but `ta`.
pub fn rust_test(v: &Violation) -> String {
    let mut s = String::new();
    s.push_str("#[test]\nfn replay() {\n    use ta::indicators::*;\n    use ta::{Next, Reset, DataItem};\n");
    s.push_str(&format!("    // {} {}: {}\n", v.prop, v.class, v.detail.replace('\n', " ")));
    s.push_str(&format!("    let mut ind = {};\n", v.cfg.rust_new()));
    for (i, op) in v.ops.iter().enumerate() {
        match op {
            Op::S(x) => s.push_str(&format!("    let o{} = ind.next({});\n", i, f2rust(*x))),
            Op::B(b) => s.push_str(&format!(
                "    let o{} = ind.next(&Bar {{ o: {}, h: {}, l: {}, c: {}, v: {} }}); // any type implementing Open/High/Low/Close/Volume\n",
                i,
                f2rust(b.o),
                f2rust(b.h),
                f2rust(b.l),
                f2rust(b.c),
                f2rust(b.v)
            )),
            Op::Reset => s.push_str("    ind.reset();\n"),
        }
    }
    s.push_str(&format!("    // observed: {}\n    // expected: {}\n", v.observed, v.expected));
    for (k, val) in &v.extra {
        s.push_str(&format!("    // {}: {}\n", k, val));
    }
    s.push_str("}\n");
    s
}

pub fn write_replay(v: &Violation) -> PathBuf {
    let dir = Path::new(&out_dir()).join("replays");
    let _ = std::fs::create_dir_all(&dir);
    let body = json!({
        "property": v.prop,
        "class": v.class,
        "config": cfg_json(&v.cfg),
        "config_text": v.cfg.descr(),
        "ops": v.ops.iter().map(op2s).collect::<Vec<_>>(),
        "observed": v.observed,
        "expected": v.expected,
        "detail": v.detail,
        "extra": v.extra,
        "rust_test": rust_test(v),
    });
    let text = serde_json::to_string_pretty(&body).unwrap();
    let h = digest128(&[text.as_bytes()]);
    let path = dir.join(format!("{}-{:016x}.json", v.prop, (h >> 64) as u64));
    let _ = std::fs::write(&path, text);
    path
}

#[derive(Clone, Debug)]
pub struct Known {
    pub status: String,
    pub property: String,
    pub kind: String,
    pub class: String,
    pub what: String,
}

pub fn load_known() -> Vec<Known> {
    let path = Path::new(VERIF_DIR).join("known_findings.json");
    let text = match std::fs::read_to_string(&path) {
        Ok(t) => t,
        Err(_) => return vec![],
    };
    let v: Value = match serde_json::from_str(&text) {
        Ok(v) => v,
        Err(e) => {
            eprintln!("MACHINERY: known_findings.json unreadable: {}", e);
            std::process::exit(2);
        }
    };
    let mut out = vec![];
    if let Some(arr) = v.get("findings").and_then(|x| x.as_array()) {
        for e in arr {
            let g = |k: &str| e.get(k).and_then(|x| x.as_str()).unwrap_or("").to_string();
            out.push(Known {
                status: g("status"),
                property: g("property"),
                kind: g("kind"),
                class: g("class"),
                what: g("what"),
            });
        }
    }
    out
}

fn matches_known(k: &Known, v: &Violation) -> bool {
    k.status == "open" && k.property == v.prop && k.kind == v.cfg.kind.name() && k.class == v.class
}

/// Write evidence, print verdict lines, return the exit code.
pub fn finish(ctx: &Ctx, mut res: CheckResult) -> i32 {
    let known = load_known();
    res.out.violations.sort_by(|a, b| a.rank().cmp(&b.rank()));
    let mut unlisted: Vec<&Violation> = vec![];
    let mut listed: Vec<(usize, &Violation)> = vec![];
    for v in &res.out.violations {
        match known.iter().position(|k| matches_known(k, v)) {
            Some(i) => listed.push((i, v)),
            None => unlisted.push(v),
        }
    }
    let st = &res.out.stats;
    let wall = ctx.start.elapsed().as_secs_f64();
    let mut cov = Map::new();
    cov.insert("states".into(), json!(st.states));
    cov.insert("transitions".into(), json!(st.transitions));
    cov.insert("traces_validated_against_impl".into(), json!(st.traces));
    cov.insert("evaluations".into(), json!(st.evaluations));
    cov.insert("distinct_nontrivial".into(), json!(st.nontrivial));
    cov.insert("rule".into(), json!(res.rule));
    cov.insert("samples".into(), json!(st.samples));
    cov.insert("exhaustive".into(), json!(res.exhaustive && st.capped.is_empty()));
    cov.insert("bounds".into(), json!(res.bounds));
    cov.insert("skipped_inapplicable".into(), json!(st.skipped));
    cov.insert("distinct_outputs_seen".into(), json!(st.distinct_outputs.len()));
    cov.insert("distinct_outputs_cap".into(), json!(DISTINCT_CAP));
    cov.insert("counters".into(), json!(st.counters));
    cov.insert("caps_hit".into(), json!(st.capped));
    cov.insert("worst_error_over_tolerance".into(), json!(st.worst_ratio));
    cov.insert("worst_error_at".into(), json!(st.worst_at));
    cov.insert("known_findings_matched".into(), json!(listed.len()));
    cov.insert("threads".into(), json!(ctx.threads));
    for (k, v) in res.extra.iter() {
        cov.insert(k.clone(), v.clone());
    }
    let ev = json!({
        "property_id": res.prop,
        "tier": if ctx.tier_thorough { "thorough" } else { "quick" },
        "seed": ctx.seed,
        "level": res.level,
        "coverage": Value::Object(cov),
        "assumptions": res.assumptions,
        "wall_s": wall,
        "violations": unlisted.len(),
        "machinery_errors": res.machinery_errors,
    });
    let evdir = Path::new(&out_dir()).join("evidence");
    let _ = std::fs::create_dir_all(&evdir);
    let evpath = evdir.join(format!("{}.json", res.prop));
    if let Err(e) = std::fs::write(&evpath, serde_json::to_string_pretty(&ev).unwrap()) {
        eprintln!("MACHINERY: cannot write evidence {}: {}", evpath.display(), e);
        return 2;
    }
    println!(
        "{} {}: states={} transitions={} traces={} evaluations={} skipped={} nontrivial={} distinct_outputs={} worst_err/tol={:.3e} wall={:.1}s{}",
        res.prop,
        if ctx.tier_thorough { "thorough" } else { "quick" },
        st.states,
        st.transitions,
        st.traces,
        st.evaluations,
        st.skipped,
        st.nontrivial,
        st.distinct_outputs.len(),
        st.worst_ratio,
        wall,
        if st.capped.is_empty() { String::new() } else { format!(" CAPS={:?}", st.capped) }
    );
    // known findings: one line per listed entry that was actually observed
    let mut printed = std::collections::BTreeSet::new();
    for (i, v) in &listed {
        if printed.insert(*i) {
            println!(
                "KNOWN-FINDING: property={} {} [{}; e.g. {} after {} ops]",
                res.prop,
                known[*i].what,
                known[*i].class,
                v.cfg.descr(),
                v.ops.len()
            );
        }
    }
    if !res.machinery_errors.is_empty() && unlisted.is_empty() {
        for m in &res.machinery_errors {
            eprintln!("MACHINERY: {}", m);
            println!("MACHINERY: {}", m);
        }
        return 2;
    }
    if let Some(v) = unlisted.first() {
        let path = write_replay(v);
        println!(
            "  first violation: {} [{}] ops=[{}] observed={} expected={} {}",
            v.cfg.descr(),
            v.class,
            if v.ops.len() > 40 { format!("{} ... ({} operations, all of them in the replay file)", ops_text(&v.ops[..12]), v.ops.len()) } else { ops_text(&v.ops) },
            v.observed,
            v.expected,
            v.detail
        );
        // a few more, different classes/kinds, for the log
        let mut seen = std::collections::BTreeSet::new();
        seen.insert((v.cfg.kind, v.class.clone()));
        for w in unlisted.iter().skip(1) {
            if seen.insert((w.cfg.kind, w.class.clone())) && seen.len() <= 8 {
                let p = write_replay(w);
                println!("  also: {} [{}] ops={} replay={}", w.cfg.descr(), w.class, w.ops.len(), p.display());
            }
        }
        println!("VIOLATION property={} replay={}", res.prop, path.display());
        return 1;
    }
    println!("OK property={}", res.prop);
    0
}

/// `mc replay <file>`: re-execute a recorded history twice on fresh instances.
pub fn replay_file(path: &str) -> i32 {
    let text = match std::fs::read_to_string(path) {
        Ok(t) => t,
        Err(e) => {
            eprintln!("cannot read {}: {}", path, e);
            return 2;
        }
    };
    let v: Value = match serde_json::from_str(&text) {
        Ok(v) => v,
        Err(e) => {
            eprintln!("bad replay file: {}", e);
            return 2;
        }
    };
    let cfg = match v.get("config").and_then(cfg_from_json) {
        Some(c) => c,
        None => {
            eprintln!("bad config in replay file");
            return 2;
        }
    };
    let ops: Vec<Op> = v
        .get("ops")
        .and_then(|x| x.as_array())
        .map(|a| a.iter().filter_map(|s| s.as_str().and_then(s2op)).collect())
        .unwrap_or_default();
    println!("replaying {} on {} ({} ops)", v.get("property").and_then(|x| x.as_str()).unwrap_or("?"), cfg.descr(), ops.len());
    let run = || -> Result<Vec<Out>, String> {
        std::panic::catch_unwind(|| crate::subjects::replay(&cfg, &ops)).map_err(|_| "panic".to_string())
    };
    let a = run();
    let b = run();
    match (&a, &b) {
        (Ok(x), Ok(y)) => {
            let same = x.len() == y.len() && x.iter().zip(y.iter()).all(|(p, q)| p.bits_eq(q));
            let show = x.len().min(40);
            for (i, o) in x.iter().enumerate().skip(x.len() - show) {
                println!("  step {:>4} {:<40} -> {}", i + 1, op2s(&ops[i]), out2s(o));
            }
            if !same {
                println!("NON-DETERMINISTIC replay");
                return 2;
            }
        }
        (Err(_), Err(_)) => println!("  replay panics (both runs)"),
        _ => {
            println!("NON-DETERMINISTIC replay (panic in one run only)");
            return 2;
        }
    }
    println!("recorded class:    {}", v.get("class").and_then(|x| x.as_str()).unwrap_or(""));
    println!("recorded observed: {}", v.get("observed").and_then(|x| x.as_str()).unwrap_or(""));
    println!("recorded expected: {}", v.get("expected").and_then(|x| x.as_str()).unwrap_or(""));
    println!("recorded detail:   {}", v.get("detail").and_then(|x| x.as_str()).unwrap_or(""));
    0
}
