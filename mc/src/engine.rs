//! Exploration engine pieces shared by all property checks: parallel job
//! runner, bounded-exhaustive sequence enumeration (iterative deepening so the
//! first counterexample is the shortest), statistics, violations.

use crate::subjects::Cfg;
use crate::types::*;
use std::collections::{BTreeMap, HashSet};
use std::sync::atomic::{AtomicBool, AtomicUsize, Ordering};
use std::time::{Duration, Instant};

#[derive(Clone, Debug)]
pub struct Violation {
    pub prop: String,
    pub cfg: Cfg,
    /// full operation history, replayable from a fresh instance
    pub ops: Vec<Op>,
    /// failure class, used as part of the known-finding signature
    pub class: String,
    pub observed: String,
    pub expected: String,
    pub detail: String,
    /// extra setup the replay needs (e.g. "clone@2", "serde@3", schedule text)
    pub extra: BTreeMap<String, String>,
}

impl Violation {
    pub fn new(prop: &str, cfg: &Cfg, ops: &[Op], class: &str) -> Violation {
        Violation {
            prop: prop.to_string(),
            cfg: *cfg,
            ops: ops.to_vec(),
            class: class.to_string(),
            observed: String::new(),
            expected: String::new(),
            detail: String::new(),
            extra: BTreeMap::new(),
        }
    }
    pub fn obs(mut self, s: String) -> Self {
        self.observed = s;
        self
    }
    pub fn exp(mut self, s: String) -> Self {
        self.expected = s;
        self
    }
    pub fn det(mut self, s: String) -> Self {
        self.detail = s;
        self
    }
    pub fn with(mut self, k: &str, v: String) -> Self {
        self.extra.insert(k.to_string(), v);
        self
    }
    /// ordering key: shortest history first, then simplest configuration
    pub fn rank(&self) -> (usize, usize, String) {
        (self.ops.len(), self.cfg.sum_periods(), self.cfg.descr())
    }
}

#[derive(Clone, Debug, Default)]
pub struct Stats {
    /// oracle evaluations performed (applicable ones)
    pub evaluations: u64,
    /// oracle evaluations skipped because the statement excludes the case
    pub skipped: u64,
    /// applicable evaluations on non-trivial cases (rule given per property)
    pub nontrivial: u64,
    /// distinct explored nodes (histories or de-duplicated concrete states)
    pub states: u64,
    /// implementation calls executed under the oracle
    pub transitions: u64,
    /// complete histories replayed from a fresh instance
    pub traces: u64,
    pub counters: BTreeMap<String, u64>,
    pub samples: Vec<String>,
    pub distinct_outputs: HashSet<u64>,
    pub capped: Vec<String>,
    pub worst_ratio: f64,
    pub worst_at: String,
}

pub const DISTINCT_CAP: usize = 200_000;

impl Stats {
    pub fn count(&mut self, k: &str) {
        *self.counters.entry(k.to_string()).or_insert(0) += 1;
    }
    pub fn add(&mut self, k: &str, n: u64) {
        *self.counters.entry(k.to_string()).or_insert(0) += n;
    }
    pub fn sample(&mut self, s: impl FnOnce() -> String) {
        if self.samples.len() < 3 {
            self.samples.push(s());
        }
    }
    #[inline]
    pub fn seen_output(&mut self, o: &Out) {
        if self.distinct_outputs.len() < DISTINCT_CAP {
            let mut h: u64 = 0xcbf29ce484222325;
            for x in o.slice() {
                h = (h ^ x.to_bits()).wrapping_mul(0x100000001b3);
                h ^= h >> 29;
            }
            self.distinct_outputs.insert(h);
        }
    }
    #[inline]
    pub fn ratio(&mut self, err: f64, tol: f64, at: impl FnOnce() -> String) {
        if tol > 0.0 {
            let r = err / tol;
            if r > self.worst_ratio {
                self.worst_ratio = r;
                self.worst_at = at();
            }
        }
    }
    pub fn merge(&mut self, o: Stats) {
        self.evaluations += o.evaluations;
        self.skipped += o.skipped;
        self.nontrivial += o.nontrivial;
        self.states += o.states;
        self.transitions += o.transitions;
        self.traces += o.traces;
        for (k, v) in o.counters {
            *self.counters.entry(k).or_insert(0) += v;
        }
        for s in o.samples {
            if self.samples.len() < 8 {
                self.samples.push(s);
            }
        }
        for h in o.distinct_outputs {
            if self.distinct_outputs.len() < DISTINCT_CAP {
                self.distinct_outputs.insert(h);
            }
        }
        self.capped.extend(o.capped);
        if o.worst_ratio > self.worst_ratio {
            self.worst_ratio = o.worst_ratio;
            self.worst_at = o.worst_at;
        }
    }
}

#[derive(Default)]
pub struct JobOut {
    pub stats: Stats,
    pub violations: Vec<Violation>,
}

impl JobOut {
    pub fn fail(&mut self, v: Violation) {
        if self.violations.len() < 32 {
            self.violations.push(v);
        }
    }
    pub fn failed(&self) -> bool {
        !self.violations.is_empty()
    }
}

pub struct Ctx {
    pub tier_thorough: bool,
    pub seed: u64,
    pub threads: usize,
    pub start: Instant,
    pub deadline: Instant,
    pub stop: AtomicBool,
}

impl Ctx {
    pub fn new(thorough: bool, seed: u64, budget: Duration) -> Ctx {
        let threads = std::thread::available_parallelism().map(|n| n.get()).unwrap_or(4).min(16);
        let start = Instant::now();
        Ctx {
            tier_thorough: thorough,
            seed,
            threads,
            start,
            deadline: start + budget,
            stop: AtomicBool::new(false),
        }
    }
    pub fn out_of_time(&self) -> bool {
        Instant::now() >= self.deadline
    }
}

/// Run `f` on every job on a pool of OS threads; results are returned in job
/// order, so everything downstream is independent of thread timing.
pub fn par_run<J: Sync, R: Send>(ctx: &Ctx, jobs: &[J], f: impl Fn(usize, &J) -> R + Sync) -> Vec<R> {
    let next = AtomicUsize::new(0);
    let n = jobs.len();
    let mut slots: Vec<Option<R>> = (0..n).map(|_| None).collect();
    let results = std::sync::Mutex::new(&mut slots);
    std::thread::scope(|s| {
        for _ in 0..ctx.threads.min(n.max(1)) {
            s.spawn(|| loop {
                let i = next.fetch_add(1, Ordering::SeqCst);
                if i >= n {
                    break;
                }
                let r = f(i, &jobs[i]);
                results.lock().unwrap()[i] = Some(r);
            });
        }
    });
    slots.into_iter().map(|r| r.expect("job result")).collect()
}

pub fn merge_jobs(outs: Vec<JobOut>) -> JobOut {
    let mut all = JobOut::default();
    for o in outs {
        all.stats.merge(o.stats);
        all.violations.extend(o.violations);
    }
    all.violations.sort_by(|a, b| a.rank().cmp(&b.rank()));
    all
}

/// Enumerate all sequences over `0..alen` of length 1..=depth (iterative
/// deepening: all of length 1, then all of length 2, ...), optionally with the
/// first symbol fixed.  `f` returns false to stop.  Returns false if stopped.
pub fn for_each_seq(alen: usize, first: Option<usize>, depth: usize, mut f: impl FnMut(&[u8]) -> bool) -> bool {
    for d in 1..=depth {
        let mut seq = vec![0u8; d];
        let lo = if first.is_some() { 1 } else { 0 };
        if let Some(a) = first {
            seq[0] = a as u8;
        }
        loop {
            if !f(&seq) {
                return false;
            }
            // odometer increment on positions lo..d (last position fastest)
            let mut i = d;
            loop {
                if i == lo {
                    break;
                }
                i -= 1;
                if (seq[i] as usize) + 1 < alen {
                    seq[i] += 1;
                    for s in seq.iter_mut().skip(i + 1) {
                        *s = 0;
                    }
                    i = usize::MAX;
                    break;
                }
            }
            if i != usize::MAX {
                break;
            }
        }
    }
    true
}

/// All sequences of length exactly `d`.
pub fn for_each_seq_exact(alen: usize, d: usize, mut f: impl FnMut(&[u8]) -> bool) -> bool {
    if d == 0 {
        return f(&[]);
    }
    let mut seq = vec![0u8; d];
    loop {
        if !f(&seq) {
            return false;
        }
        let mut i = d;
        loop {
            if i == 0 {
                return true;
            }
            i -= 1;
            if (seq[i] as usize) + 1 < alen {
                seq[i] += 1;
                for s in seq.iter_mut().skip(i + 1) {
                    *s = 0;
                }
                break;
            }
        }
    }
}

/// The inputs since the last Reset (the reference history).
pub fn since_reset(ops: &[Op]) -> &[Op] {
    match ops.iter().rposition(|o| matches!(o, Op::Reset)) {
        Some(i) => &ops[i + 1..],
        None => ops,
    }
}

pub fn ops_text(ops: &[Op]) -> String {
    let v: Vec<String> = ops.iter().map(op2s).collect();
    v.join("; ")
}

/// 128-bit digest (two independent FNV/xorshift streams) of bytes.
pub fn digest128(parts: &[&[u8]]) -> u128 {
    let mut a: u64 = 0xcbf29ce484222325;
    let mut b: u64 = 0x9e3779b97f4a7c15;
    for p in parts {
        for &c in *p {
            a = (a ^ c as u64).wrapping_mul(0x100000001b3);
            b = (b.rotate_left(5) ^ c as u64).wrapping_mul(0xff51afd7ed558ccd);
            b ^= b >> 33;
        }
        a = (a ^ 0xff).wrapping_mul(0x100000001b3);
        b = (b ^ 0xa5a5).wrapping_mul(0xc4ceb9fe1a85ec53);
    }
    ((a as u128) << 64) | b as u128
}

#[cfg(test)]
mod tests {
    use super::*;
    #[test]
    fn seq_counts() {
        let mut n = 0;
        for_each_seq(3, None, 3, |_| {
            n += 1;
            true
        });
        assert_eq!(n, 3 + 9 + 27);
        let mut n = 0;
        for_each_seq(3, Some(1), 3, |s| {
            assert_eq!(s[0], 1);
            n += 1;
            true
        });
        assert_eq!(n, 1 + 3 + 9);
        let mut n = 0;
        for_each_seq_exact(4, 3, |_| {
            n += 1;
            true
        });
        assert_eq!(n, 64);
    }
}

// ------------------------------------------------------------------ seq jobs

use crate::subjects::{make, Subject};

/// Replay `ops` on a fresh instance under catch_unwind; Err(step) if a call panicked.
pub fn replay_last_caught(cfg: &Cfg, ops: &[Op]) -> Result<Out, usize> {
    let mut step = 0usize;
    let r = std::panic::catch_unwind(std::panic::AssertUnwindSafe(|| {
        let mut s = make(cfg);
        let mut last = Out::NONE;
        for op in ops {
            last = s.apply(op);
            step += 1;
        }
        last
    }));
    r.map_err(|_| step)
}

/// How the instance is handled before the LAST operation of a replayed history.
#[derive(Clone, Copy, PartialEq, Debug)]
pub enum Via {
    Plain,
    /// serialized with bincode and replaced by the restored copy
    Serde,
    /// replaced by its clone (the original is dropped)
    Clone,
    /// another instance with the SAME parameters that has already consumed a longer, unrelated
    /// stream is overwritten with `clone_from(&instance)` and takes its place
    CloneFromUsed,
    /// as above, but the overwritten instance was built with LARGER periods and another multiplier
    CloneFromBigger,
    /// several in a row: clone, serde round trip of the clone, that copied with clone_from into a used
    /// instance, and a clone of the result
    Chain,
}

pub const VIAS: [Via; 5] = [Via::Serde, Via::Clone, Via::CloneFromUsed, Via::CloneFromBigger, Via::Chain];

impl Via {
    pub fn text(self) -> &'static str {
        match self {
            Via::Plain => "used as it is",
            Via::Serde => "serialized with bincode and restored",
            Via::Clone => "replaced by its clone",
            Via::CloneFromUsed => "copied with clone_from into an instance of the same parameters that had already consumed another stream",
            Via::CloneFromBigger => "copied with clone_from into an instance built with larger periods (and another multiplier) that had already consumed another stream",
            Via::Chain => "cloned, the clone serialized and restored, the restored copy copied with clone_from into a used instance, and that cloned again",
        }
    }
    pub fn tag(self) -> &'static str {
        match self {
            Via::Plain => "plain",
            Via::Serde => "serde",
            Via::Clone => "clone",
            Via::CloneFromUsed => "clone_from(used)",
            Via::CloneFromBigger => "clone_from(bigger)",
            Via::Chain => "clone+serde+clone_from+clone",
        }
    }
}

/// Pass the instance through the identity transformation `via`.
pub fn apply_via(cfg: &Cfg, s: Box<dyn Subject>, via: Via) -> Box<dyn Subject> {
    match via {
        Via::Plain => s,
        Via::Serde => {
            let bytes = s.ser().expect("harness: serialize");
            s.de(&bytes).expect("harness: deserialize")
        }
        Via::Clone => s.dup(),
        Via::Chain => {
            let c = apply_via(cfg, s, Via::Clone);
            let r = apply_via(cfg, c, Via::Serde);
            let t = apply_via(cfg, r, Via::CloneFromUsed);
            t.dup()
        }
        Via::CloneFromUsed | Via::CloneFromBigger => {
            let mut tcfg = *cfg;
            if via == Via::CloneFromBigger {
                for p in tcfg.p.iter_mut().take(cfg.kind.nperiods()) {
                    if *p < (1 << 20) {
                        *p += 3;
                    }
                }
                if cfg.kind.has_mult() {
                    tcfg.mult = cfg.mult + 1.0;
                }
            }
            let w = tcfg.max_period().min(64);
            let mut t = make(&tcfg);
            for i in 0..2 * w + 3 {
                let x = 1000.0 + (i % 5) as f64 * 37.5;
                if cfg.kind.has_scalar() {
                    t.apply(&Op::S(x));
                } else {
                    t.apply(&Op::B(Bar { o: x, h: x * 1.5, l: x * 0.5, c: x, v: 3.0 }));
                }
            }
            assert!(t.assign_from(s.as_ref()), "harness: clone_from between different indicator types");
            t
        }
    }
}

/// As `replay_last_caught`, but the instance goes through an identity transformation (serde round
/// trip / clone / clone_from) right before the last operation (and before a reset() that precedes it).
/// Every prefix of a history is itself an enumerated history, so this places the transformation at
/// every position of every history.
pub fn replay_last_via(cfg: &Cfg, ops: &[Op], via: Via) -> Result<Out, usize> {
    if via == Via::Plain || ops.is_empty() {
        return replay_last_caught(cfg, ops);
    }
    let mut step = 0usize;
    let r = std::panic::catch_unwind(std::panic::AssertUnwindSafe(|| {
        let mut s = make(cfg);
        let mut last = Out::NONE;
        for (i, op) in ops.iter().enumerate() {
            // right before the last operation - and, when that is preceded by reset(), also right before
            // the reset (a transformation that loses a "dirty" flag makes the following reset a no-op)
            if i + 1 == ops.len() || (i + 2 == ops.len() && matches!(op, Op::Reset)) {
                s = apply_via(cfg, s, via);
            }
            last = s.apply(op);
            step += 1;
        }
        last
    }));
    r.map_err(|_| step)
}

pub fn replay_subject_caught(cfg: &Cfg, ops: &[Op]) -> Result<(Box<dyn Subject>, Out), usize> {
    let mut step = 0usize;
    let r = std::panic::catch_unwind(std::panic::AssertUnwindSafe(|| {
        let mut s = make(cfg);
        let mut last = Out::NONE;
        for op in ops {
            last = s.apply(op);
            step += 1;
        }
        (s, last)
    }));
    r.map_err(|_| step)
}

/// Bounded-exhaustive exploration of one (configuration, first symbol) slice:
/// every sequence over `alphabet` of length 1..=depth starting with
/// `alphabet[first]`, each replayed on a FRESH real instance; `check` sees the
/// whole history and the output of its last operation (prefixes are separate
/// nodes, so every prefix is checked exactly once).  Stops at the first
/// violation (which is the shortest of this slice).
pub fn seq_job(ctx: &Ctx, prop: &str, cfg: &Cfg, alphabet: &[Op], first: usize, depth: usize, out: &mut JobOut, check: impl FnMut(&[Op], &Out, &mut JobOut)) {
    seq_job_via(ctx, prop, cfg, alphabet, first, depth, Via::Plain, out, check)
}

#[allow(clippy::too_many_arguments)]
pub fn seq_job_via(
    ctx: &Ctx,
    prop: &str,
    cfg: &Cfg,
    alphabet: &[Op],
    first: usize,
    depth: usize,
    via: Via,
    out: &mut JobOut,
    mut check: impl FnMut(&[Op], &Out, &mut JobOut),
) {
    let mut ops: Vec<Op> = Vec::with_capacity(depth);
    let mut n: u64 = 0;
    let mut capped = false;
    for_each_seq(alphabet.len(), Some(first), depth, |seq| {
        n += 1;
        if n % 8192 == 0 && (ctx.out_of_time() || ctx.stop.load(Ordering::Relaxed)) {
            capped = true;
            return false;
        }
        ops.clear();
        ops.extend(seq.iter().map(|&a| alphabet[a as usize]));
        out.stats.states += 1;
        out.stats.transitions += ops.len() as u64;
        out.stats.traces += 1;
        match replay_last_via(cfg, &ops, via) {
            Ok(last) => {
                if !matches!(ops[ops.len() - 1], Op::Reset) {
                    out.stats.seen_output(&last);
                    let before = out.violations.len();
                    check(&ops, &last, out);
                    if via != Via::Plain && out.violations.len() > before {
                        for v in out.violations[before..].iter_mut() {
                            v.detail.push_str(&format!(" [the instance was {} right before the last operation; without that step the same history passes]", via.text()));
                            v.extra.insert("checkpoint".into(), format!("{}@{}", via.tag(), ops.len() - 1));
                        }
                    }
                    if ops.len() >= depth.min(4) && out.stats.samples.len() < 3 {
                        out.stats.samples.push(format!("{} ops=[{}] -> {}", cfg.descr(), ops_text(&ops), out2s(&last)));
                    }
                }
            }
            Err(step) => {
                out.fail(
                    Violation::new(prop, cfg, &ops[..(step + 1).min(ops.len())], "panic")
                        .obs("panic".into())
                        .exp("a return value".into())
                        .det(format!("call {} panicked", step + 1)),
                );
            }
        }
        !out.failed()
    });
    if capped {
        out.stats.capped.push(format!("time cap in {} depth {}", cfg.descr(), depth));
    }
}

// ---------------------------------------------------------------------- BFS

pub struct BfsResult {
    /// distinct concrete implementation states (bincode + Debug), ignoring the reference part of the key
    pub concrete: u64,
    pub states: u64,
    pub transitions: u64,
    pub depth: usize,
    pub fixpoint: bool,
}

/// Concrete state key without hooks: bincode bytes + Debug rendering of the
/// real object (derive(Debug) prints every field; f64 Debug is shortest
/// round-trip so bit-distinct finite values print differently), plus the
/// reference-model state the oracle needs.
pub fn state_key(s: &dyn Subject, refstate: &[u8]) -> u128 {
    let b = s.ser().unwrap_or_default();
    let d = s.dbg();
    digest128(&[&b, d.as_bytes(), refstate])
}

/// Explicit-state breadth-first search over the REAL object.  A node is a
/// history (replayed from a fresh instance for every expansion); nodes are
/// merged when the concrete key and the reference state coincide.  `check` is
/// called on every executed edge with the full (real) path.
pub fn bfs(
    ctx: &Ctx,
    prop: &str,
    cfg: &Cfg,
    alphabet: &[Op],
    refwin: usize,
    max_states: usize,
    max_depth: usize,
    out: &mut JobOut,
    mut check: impl FnMut(&[Op], &Out, &mut JobOut),
) -> BfsResult {
    use std::collections::HashSet;
    let refstate = |ops: &[Op]| -> Vec<u8> {
        let h = since_reset(ops);
        let w = &h[h.len().saturating_sub(refwin)..];
        let mut v = Vec::with_capacity(w.len() * 8 + 16);
        v.extend((w.len() as u32).to_le_bytes());
        for op in w {
            v.extend(op2s(op).as_bytes());
            v.push(b'|');
        }
        let m = h.iter().map(|o| o.maxmag()).fold(0.0, f64::max);
        v.extend(m.to_bits().to_le_bytes());
        v
    };
    let mut seen: HashSet<u128> = HashSet::new();
    let mut concrete: HashSet<u128> = HashSet::new();
    let root = make(cfg);
    seen.insert(state_key(root.as_ref(), &refstate(&[])));
    concrete.insert(state_key(root.as_ref(), &[]));
    let mut frontier: Vec<Vec<u8>> = vec![vec![]];
    let mut res = BfsResult { concrete: 1, states: 1, transitions: 0, depth: 0, fixpoint: false };
    let mut ops: Vec<Op> = vec![];
    while !frontier.is_empty() {
        if res.depth >= max_depth {
            break;
        }
        let mut next: Vec<Vec<u8>> = vec![];
        for h in &frontier {
            for a in 0..alphabet.len() {
                ops.clear();
                ops.extend(h.iter().map(|&i| alphabet[i as usize]));
                ops.push(alphabet[a]);
                res.transitions += 1;
                match replay_subject_caught(cfg, &ops) {
                    Ok((s, last)) => {
                        if !matches!(alphabet[a], Op::Reset) {
                            out.stats.seen_output(&last);
                            check(&ops, &last, out);
                        }
                        if out.failed() {
                            return res;
                        }
                        let k = state_key(s.as_ref(), &refstate(&ops));
                        if concrete.insert(state_key(s.as_ref(), &[])) {
                            res.concrete += 1;
                        }
                        if seen.insert(k) {
                            res.states += 1;
                            let mut nh = h.clone();
                            nh.push(a as u8);
                            next.push(nh);
                        }
                    }
                    Err(step) => {
                        out.fail(
                            Violation::new(prop, cfg, &ops[..(step + 1).min(ops.len())], "panic")
                                .obs("panic".into())
                                .exp("a return value".into()),
                        );
                        return res;
                    }
                }
            }
            if seen.len() > max_states || ctx.out_of_time() {
                out.stats.capped.push(format!(
                    "bfs cap ({} states, depth {}) in {}",
                    seen.len(),
                    res.depth,
                    cfg.descr()
                ));
                return res;
            }
        }
        res.depth += 1;
        frontier = next;
    }
    res.fixpoint = frontier.is_empty();
    res
}
