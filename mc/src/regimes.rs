//! Macro-step alphabets: an "operation" is a whole segment of a stream
//! (monotone run, one-tick range, oscillation, gap, flat, saw-tooth, ...).
//! Enumerating all orderings of k segments is exhaustive over regime
//! sequences; inside a regime the values follow a fixed generator.

use crate::alpha::Lcg;
use crate::types::*;

#[derive(Clone, Copy, Debug, PartialEq)]
pub enum Regime {
    Up,
    Down,
    Tick,
    Osc,
    Gap,
    Flat,
    /// alternate between m and 1000 m
    Extremes,
    /// m * (1 + t mod 997)
    Saw,
    /// LCG walk inside the band [m, 1000 m]
    Walk,
    /// plateau at 500 m
    Plateau,
    /// mostly m, every 50th value 1000 m
    Spikes,
    /// gentle climb with one outlier 1e9 times larger at the third step (not carried forward)
    Outlier,
    /// the price moves only on every second step (identical consecutive bars in between)
    Stair,
    /// short saw-tooth with inexact steps: m * (1.1 + (t mod 7) * 123.456) - biased rounding of the deltas
    ShortSaw,
    /// exact symmetric triangle c, c+d, c, c-d (signed offsets from any element cancel exactly)
    Tri4,
    /// zeros of both signs mixed with small signed values (bar-to-bar changes of a quiet price)
    ZeroMix,
    /// quiet: m * (1 + 1e-5 * w), w a non-repeating small integer pattern - a nearly flat window right
    /// after large values (cancellation residue of either sign in a running variance)
    Quiet,
    /// alternating high / low plateaus of lengths 80, 79, ... 2, 1, then a plain zig-zag: an extreme held for
    /// exactly n+1 inputs occurs for every window length up to 79 and only shorter holds follow it
    PlateauSweep,
}

impl Regime {
    pub fn name(self) -> &'static str {
        match self {
            Regime::Up => "up",
            Regime::Down => "down",
            Regime::Tick => "tick",
            Regime::Osc => "osc",
            Regime::Gap => "gap",
            Regime::Flat => "flat",
            Regime::Extremes => "extremes",
            Regime::Saw => "saw",
            Regime::Walk => "walk",
            Regime::Plateau => "plateau",
            Regime::Spikes => "spikes",
            Regime::Outlier => "outlier",
            Regime::Stair => "stair",
            Regime::ShortSaw => "short-saw",
            Regime::Tri4 => "tri4",
            Regime::ZeroMix => "zero-mix",
            Regime::Quiet => "quiet",
            Regime::PlateauSweep => "plateau-sweep",
        }
    }
}

/// Price generator state carried across segments.
pub struct Gen {
    pub x: f64,
    pub t: usize,
    pub m: f64,
    pub lcg: Lcg,
}

impl Gen {
    pub fn new(m: f64, seed: u64) -> Gen {
        Gen { x: m, t: 0, m, lcg: Lcg::new(seed) }
    }
    /// next price of regime `r` (i = index inside the segment); prices stay positive
    pub fn price(&mut self, r: Regime, i: usize) -> f64 {
        let m = self.m;
        self.t += 1;
        let x = match r {
            // monotone up, capped at 10^6 m (then level) so that long runs never overflow
            Regime::Up => (self.x * 1.01 + 0.01 * m).min(1e6 * m),
            Regime::Down => (self.x * 0.99).max(m * 1e-3),
            Regime::Tick => {
                if i % 2 == 0 {
                    self.x * (1.0 + 1e-9)
                } else {
                    self.x / (1.0 + 1e-9)
                }
            }
            Regime::Osc => {
                if i % 2 == 0 {
                    self.x * 3.0
                } else {
                    self.x / 3.0
                }
            }
            Regime::Gap => {
                if i == 0 {
                    self.x * 10.0
                } else if i % 17 == 0 {
                    self.x / 10.0
                } else {
                    self.x
                }
            }
            Regime::Flat => self.x,
            Regime::Extremes => {
                if i % 2 == 0 {
                    m
                } else {
                    1000.0 * m
                }
            }
            Regime::Saw => m * (1.0 + (self.t % 997) as f64),
            Regime::Walk => {
                let u = self.lcg.unit();
                let step = (u - 0.5) * 40.0 * m;
                (self.x + step).clamp(m, 1000.0 * m)
            }
            Regime::Plateau => 500.0 * m,
            Regime::Spikes => {
                if i % 50 == 49 {
                    1000.0 * m
                } else {
                    m
                }
            }
            Regime::Outlier => self.x,
            Regime::ShortSaw => m * (1.1 + (self.t % 7) as f64 * 123.456),
            Regime::Tri4 => m * (8.0 + [0.0, 1.0, 0.0, -1.0][self.t % 4]),
            Regime::ZeroMix => [0.0, -0.0, m, -0.0, -m, 0.0, 0.0, -2.0 * m, -0.0][self.t % 9],
            Regime::Quiet => m * (1.0 + 1e-5 * (((self.t * 7) % 13) as f64 - 6.0 + ((self.t / 13) % 5) as f64 * 0.37)),
            Regime::PlateauSweep => {
                // plateau k has length 80 - k for k < 80 and 1 afterwards (a plain zig-zag): every hold length
                // occurs once and is followed by shorter ones only
                let mut k = 0usize;
                let mut rest = i;
                loop {
                    let l = if k < 80 { 80 - k } else { 1 };
                    if rest < l {
                        break;
                    }
                    rest -= l;
                    k += 1;
                    if k >= 80 {
                        k += rest;
                        break;
                    }
                }
                m * if k % 2 == 0 { 12.0 + (k % 3) as f64 } else { 7.0 - (k % 2) as f64 * 0.5 }
            }
            Regime::Stair => {
                // triangle wave between 100 m and 200 m, one move every second step: stays inside the band
                let j = (self.t / 2) % 40;
                let tri = if j < 20 { j } else { 40 - j };
                m * (100.0 + 5.0 * tri as f64)
            }
        };
        if r == Regime::Outlier {
            // the level climbs gently; the outlier itself is not carried forward
            self.x = self.x * 1.001 + 0.001 * m;
            return if i == 2 { self.x * 1e9 } else { self.x };
        }
        self.x = x;
        x
    }
    /// a valid bar around price p; close alternates near high / low / middle
    pub fn bar(&mut self, r: Regime, i: usize, volumes: &[f64]) -> Bar {
        let p = self.price(r, i);
        let v = volumes[self.t % volumes.len()];
        if r == Regime::Flat || r == Regime::Plateau {
            return Bar { o: p, h: p, l: p, c: p, v };
        }
        if r == Regime::Stair {
            // while the price rests the typical price is EXACTLY the same, but the bar is composed
            // differently: prices on a dyadic grid (11 significant bits), so that close + high + low is
            // exact and equal for (P, P+2u, P-2u) and (P-u, P+3u, P-2u)
            let u = 2f64.powi(p.abs().max(f64::MIN_POSITIVE).log2().floor() as i32 - 10);
            let g = (p / u).round() * u;
            let vol = if v == 0.0 { 1.0 } else { v };
            return if self.t % 2 == 0 { Bar { o: g, h: g + 2.0 * u, l: g - 2.0 * u, c: g, v: vol } } else { Bar { o: g, h: g + 3.0 * u, l: g - 2.0 * u, c: g - u, v: vol } };
        }
        let h = p * 1.01;
        let l = p * 0.99;
        let c = match self.t % 3 {
            0 => h,
            1 => l,
            _ => p,
        };
        Bar { o: p, h, l, c, v }
    }
}

/// All sequences of k regimes over `set`.
pub fn orderings(set: &[Regime], k: usize) -> Vec<Vec<Regime>> {
    let mut out = vec![];
    crate::engine::for_each_seq_exact(set.len(), k, |s| {
        out.push(s.iter().map(|&i| set[i as usize]).collect());
        true
    });
    out
}
