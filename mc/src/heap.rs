//! Counting global allocator with per-thread live-byte counters (C18).
//! The only `unsafe` in the harness.

use std::alloc::{GlobalAlloc, Layout, System};
use std::cell::Cell;

pub struct Counting;

thread_local! {
    static LIVE: Cell<isize> = const { Cell::new(0) };
    static ALLOCS: Cell<u64> = const { Cell::new(0) };
}

unsafe impl GlobalAlloc for Counting {
    unsafe fn alloc(&self, l: Layout) -> *mut u8 {
        let p = System.alloc(l);
        if !p.is_null() {
            let _ = LIVE.try_with(|c| c.set(c.get() + l.size() as isize));
            let _ = ALLOCS.try_with(|c| c.set(c.get() + 1));
        }
        p
    }
    unsafe fn alloc_zeroed(&self, l: Layout) -> *mut u8 {
        // forwarded so that large zeroed windows stay untouched (lazily mapped) pages
        let p = System.alloc_zeroed(l);
        if !p.is_null() {
            let _ = LIVE.try_with(|c| c.set(c.get() + l.size() as isize));
            let _ = ALLOCS.try_with(|c| c.set(c.get() + 1));
        }
        p
    }
    unsafe fn dealloc(&self, p: *mut u8, l: Layout) {
        System.dealloc(p, l);
        let _ = LIVE.try_with(|c| c.set(c.get() - l.size() as isize));
    }
    unsafe fn realloc(&self, p: *mut u8, l: Layout, new_size: usize) -> *mut u8 {
        let q = System.realloc(p, l, new_size);
        if !q.is_null() {
            let _ = LIVE.try_with(|c| c.set(c.get() + new_size as isize - l.size() as isize));
            let _ = ALLOCS.try_with(|c| c.set(c.get() + 1));
        }
        q
    }
}

/// live heap bytes allocated (and not yet freed) by the current thread
pub fn live() -> isize {
    LIVE.with(|c| c.get())
}

/// number of allocation calls made by the current thread
pub fn allocs() -> u64 {
    ALLOCS.with(|c| c.get())
}
