//! Reference models: the documented formulas, evaluated FROM SCRATCH on the
//! history (never incrementally), in double-double arithmetic.  Written from the
//! property statements and the crate's doc comments, not from its algorithms.
//!
//! Implementation-only behaviour (NaN handling, zero denominators) is left out:
//! `den_zero` tells the caller that the formula defines no value at this step.

use crate::dd::{self, Dd};
use crate::subjects::{Cfg, Kind};
use crate::types::*;

#[derive(Clone, Copy, Debug)]
pub struct Ref {
    pub v: [f64; 3],
    pub n: usize,
    /// SD / BB: reference population variance of the window
    pub var: f64,
    /// condition number c of the defining ratio (1 where not a ratio)
    pub cond: f64,
    /// the defining ratio has a zero reference denominator and no neutral rule
    pub den_zero: bool,
    /// a documented neutral/seed rule produced the value (50 / 0 / 1)
    pub neutral: bool,
    /// window is degenerate in the sense of C08 (flat prices / no flow)
    pub degenerate: bool,
    /// largest |input| since reset (bars: high, low, close)
    pub m: f64,
    /// natural output scale of C03 (100, 1, 1/0.015, cumulative volume); M for price-valued
    pub scale: f64,
    /// reference window extremes (min, max) of the series the indicator reads
    pub wmin: f64,
    pub wmax: f64,
    /// reference denominator of the defining ratio (CCI: MAD; MFI: total flow), NaN otherwise
    pub den: f64,
    /// MFI: largest flow that entered the totals within `hist`
    pub maxflow: f64,
}

impl Ref {
    fn new(m: f64) -> Ref {
        Ref {
            v: [0.0; 3],
            n: 0,
            var: f64::NAN,
            cond: 1.0,
            den_zero: false,
            neutral: false,
            degenerate: false,
            m,
            scale: m,
            wmin: f64::NAN,
            wmax: f64::NAN,
            den: f64::NAN,
            maxflow: 0.0,
        }
    }
    fn one(mut self, x: f64) -> Ref {
        self.v[0] = x;
        self.n = 1;
        self
    }
}

// ---------------------------------------------------------------- windows

pub fn mean_dd(w: &[f64]) -> Dd {
    dd::sum(w.iter().copied()).divf(w.len() as f64)
}

pub fn wma_dd(w: &[f64]) -> Dd {
    let k = w.len();
    let mut s = Dd::ZERO;
    for (i, x) in w.iter().enumerate() {
        s = s.add(Dd::new(*x).mulf((i + 1) as f64));
    }
    s.divf((k * (k + 1)) as f64 / 2.0)
}

/// population variance, two-pass
pub fn var_dd(w: &[f64]) -> Dd {
    let mean = mean_dd(w);
    let mut s = Dd::ZERO;
    for x in w {
        let d = Dd::new(*x).sub(mean);
        s = s.add(d.mul(d));
    }
    s.divf(w.len() as f64)
}

pub fn mad_dd(w: &[f64]) -> Dd {
    let mean = mean_dd(w);
    let mut s = Dd::ZERO;
    for x in w {
        s = s.add(Dd::new(*x).sub(mean).abs());
    }
    s.divf(w.len() as f64)
}

pub fn min_f(w: &[f64]) -> f64 {
    let mut m = w[0];
    for x in w {
        if *x < m {
            m = *x;
        }
    }
    m
}

pub fn max_f(w: &[f64]) -> f64 {
    let mut m = w[0];
    for x in w {
        if *x > m {
            m = *x;
        }
    }
    m
}

pub fn is_flat(w: &[f64]) -> bool {
    w.iter().all(|x| *x == w[0])
}

fn tail<T>(xs: &[T], n: usize) -> &[T] {
    &xs[xs.len().saturating_sub(n)..]
}

// ---------------------------------------------------------------- series

pub fn alpha(n: usize) -> Dd {
    Dd::new(2.0).div(Dd::new(n as f64).addf(1.0))
}

/// EMA_1 = x_1; EMA_t = a x_t + (1-a) EMA_{t-1}; returns the last value.
pub fn ema_last(n: usize, xs: &[Dd]) -> Dd {
    let a = alpha(n);
    let b = Dd::ONE.sub(a);
    let mut cur = xs[0];
    for x in &xs[1..] {
        cur = a.mul(*x).add(b.mul(cur));
    }
    cur
}

pub fn ema_series(n: usize, xs: &[Dd]) -> Vec<Dd> {
    let a = alpha(n);
    let b = Dd::ONE.sub(a);
    let mut out = Vec::with_capacity(xs.len());
    let mut cur = xs[0];
    out.push(cur);
    for x in &xs[1..] {
        cur = a.mul(*x).add(b.mul(cur));
        out.push(cur);
    }
    out
}

fn closes(hist: &[Op]) -> Vec<f64> {
    hist.iter()
        .map(|op| match op {
            Op::S(x) => *x,
            Op::B(b) => b.c,
            Op::Reset => unreachable!(),
        })
        .collect()
}

fn bars(hist: &[Op]) -> Vec<Bar> {
    hist.iter()
        .map(|op| match op {
            Op::S(x) => Bar::one(*x),
            Op::B(b) => *b,
            Op::Reset => unreachable!(),
        })
        .collect()
}

fn tp_dd(b: &Bar) -> Dd {
    Dd::new(b.c).addf(b.h).addf(b.l).divf(3.0)
}

/// True range series (documented: high-low first; 3-way max afterwards).
pub fn tr_series(bs: &[Bar]) -> Vec<Dd> {
    let mut out = Vec::with_capacity(bs.len());
    for (i, b) in bs.iter().enumerate() {
        let hl = Dd::new(b.h).subf(b.l);
        if i == 0 {
            out.push(hl);
        } else {
            let pc = bs[i - 1].c;
            let d2 = Dd::new(b.h).subf(pc).abs();
            let d3 = Dd::new(b.l).subf(pc).abs();
            out.push(hl.max(d2).max(d3));
        }
    }
    out
}

/// FastStochastic value at the last bar of `bs` for window n: (value, c, den_zero)
fn fast_at(bs: &[Bar], n: usize) -> (Dd, f64, bool) {
    let w = tail(bs, n);
    let hi = w.iter().map(|b| b.h).fold(f64::NEG_INFINITY, f64::max);
    let lo = w.iter().map(|b| b.l).fold(f64::INFINITY, f64::min);
    let x = bs[bs.len() - 1].c;
    if hi == lo {
        return (Dd::new(50.0), 1.0, true);
    }
    let den = Dd::new(hi).subf(lo);
    let v = Dd::new(x).subf(lo).div(den).mulf(100.0);
    let c = x.abs().max(hi.abs()).max(lo.abs()) / den.f().abs();
    (v, c, false)
}

pub fn history_m(hist: &[Op]) -> f64 {
    hist.iter().map(|o| o.maxmag()).fold(0.0, f64::max)
}

/// The reference value after `hist` (inputs since construction / last reset;
/// non-empty; no Reset entries).
pub fn reference(cfg: &Cfg, hist: &[Op]) -> Ref {
    let t = hist.len();
    assert!(t > 0);
    let m = history_m(hist);
    let mut r = Ref::new(m);
    let n = cfg.p[0];
    let bar_input = matches!(hist[t - 1], Op::B(_));
    match cfg.kind {
        Kind::Sma | Kind::Wma | Kind::Sd | Kind::Mad | Kind::Bb | Kind::Min | Kind::Max => {
            let xs: Vec<f64> = match cfg.kind {
                Kind::Min => bars(hist).iter().map(|b| b.l).collect(),
                Kind::Max => bars(hist).iter().map(|b| b.h).collect(),
                _ => closes(hist),
            };
            let w = tail(&xs, n);
            r.wmin = min_f(w);
            r.wmax = max_f(w);
            r.degenerate = is_flat(w);
            match cfg.kind {
                Kind::Sma => r.one(mean_dd(w).f()),
                Kind::Wma => r.one(wma_dd(w).f()),
                Kind::Sd => {
                    let v = var_dd(w);
                    r.var = v.f();
                    r.one(v.sqrt().f())
                }
                Kind::Mad => r.one(mad_dd(w).f()),
                Kind::Min => r.one(r.wmin),
                Kind::Max => r.one(r.wmax),
                Kind::Bb => {
                    let mean = mean_dd(w);
                    let v = var_dd(w);
                    let sd = v.sqrt();
                    r.var = v.f();
                    r.v = [
                        mean.f(),
                        mean.add(sd.mulf(cfg.mult)).f(),
                        mean.sub(sd.mulf(cfg.mult)).f(),
                    ];
                    r.n = 3;
                    r
                }
                _ => unreachable!(),
            }
        }
        Kind::Ema => {
            let xs: Vec<Dd> = closes(hist).iter().map(|x| Dd::new(*x)).collect();
            let c = closes(hist);
            r.wmin = min_f(&c);
            r.wmax = max_f(&c);
            r.degenerate = is_flat(tail(&c, 2));
            r.one(ema_last(n, &xs).f())
        }
        Kind::Tr => {
            let bs = bars(hist);
            let tr = tr_series(&bs);
            let w = tail(&bs, 2);
            r.degenerate = w.iter().all(|b| b.h == w[0].h && b.l == w[0].h && b.c == w[0].h);
            r.one(tr[t - 1].f())
        }
        Kind::Atr => {
            let bs = bars(hist);
            let tr = tr_series(&bs);
            r.one(ema_last(n, &tr).f())
        }
        Kind::Macd => {
            let xs: Vec<Dd> = closes(hist).iter().map(|x| Dd::new(*x)).collect();
            let f = ema_series(cfg.p[0], &xs);
            let s = ema_series(cfg.p[1], &xs);
            let macd: Vec<Dd> = f.iter().zip(s.iter()).map(|(a, b)| a.sub(*b)).collect();
            let sig = ema_last(cfg.p[2], &macd);
            let l = macd[t - 1];
            r.v = [l.f(), sig.f(), l.sub(sig).f()];
            r.n = 3;
            r
        }
        Kind::Kc => {
            let bs = bars(hist);
            // per element: a scalar input is its own price, a bar contributes its typical price
            // (so a stream mixing both kinds of input on one instance is defined too)
            let _ = bar_input;
            let tps: Vec<Dd> = hist
                .iter()
                .map(|op| match op {
                    Op::S(x) => Dd::new(*x),
                    Op::B(b) => tp_dd(b),
                    Op::Reset => unreachable!(),
                })
                .collect();
            let avg = ema_last(n, &tps);
            let atr = ema_last(n, &tr_series(&bs));
            r.v = [
                avg.f(),
                avg.add(atr.mulf(cfg.mult)).f(),
                avg.sub(atr.mulf(cfg.mult)).f(),
            ];
            r.n = 3;
            r
        }
        Kind::Ce => {
            let bs = bars(hist);
            let atr = ema_last(n, &tr_series(&bs));
            let w = tail(&bs, n);
            let hi = w.iter().map(|b| b.h).fold(f64::NEG_INFINITY, f64::max);
            let lo = w.iter().map(|b| b.l).fold(f64::INFINITY, f64::min);
            r.wmin = lo;
            r.wmax = hi;
            r.v = [
                Dd::new(hi).sub(atr.mulf(cfg.mult)).f(),
                Dd::new(lo).add(atr.mulf(cfg.mult)).f(),
                0.0,
            ];
            r.n = 2;
            r
        }
        Kind::Rsi => {
            let xs = closes(hist);
            let mut ups = vec![Dd::new(0.1)];
            let mut downs = vec![Dd::new(0.1)];
            for i in 1..t {
                if xs[i] > xs[i - 1] {
                    ups.push(Dd::new(xs[i]).subf(xs[i - 1]));
                    downs.push(Dd::ZERO);
                } else {
                    ups.push(Dd::ZERO);
                    downs.push(Dd::new(xs[i - 1]).subf(xs[i]));
                }
            }
            let u = ema_last(n, &ups);
            let d = ema_last(n, &downs);
            let den = u.add(d);
            r.scale = 100.0;
            r.neutral = t == 1;
            r.degenerate = t >= 2 && is_flat(tail(&xs, n.saturating_add(1).min(t)));
            if den.is_zero() || den.f() == 0.0 {
                r.den_zero = true;
                return r.one(50.0);
            }
            r.cond = m.max(u.f()).max(d.f()) / den.f();
            r.one(u.div(den).mulf(100.0).f())
        }
        Kind::FastStoch => {
            let bs = bars(hist);
            let (v, c, dz) = fast_at(&bs, n);
            r.scale = 100.0;
            r.cond = c;
            r.neutral = dz;
            r.degenerate = dz;
            r.one(v.f())
        }
        Kind::SlowStoch => {
            let bs = bars(hist);
            let mut fs = Vec::with_capacity(t);
            let mut cmax: f64 = 1.0;
            for i in 0..t {
                let (v, c, _) = fast_at(&bs[..=i], n);
                fs.push(v);
                cmax = cmax.max(c);
            }
            r.scale = 100.0;
            r.cond = cmax;
            let (_, _, dz) = fast_at(&bs, n);
            r.degenerate = dz;
            r.one(ema_last(cfg.p[1], &fs).f())
        }
        Kind::Roc => {
            let xs = closes(hist);
            let prev = if t > n { xs[t - 1 - n] } else { xs[0] };
            r.scale = 100.0;
            r.degenerate = is_flat(tail(&xs, n.saturating_add(1)));
            if prev == 0.0 {
                r.den_zero = true;
                return r.one(0.0);
            }
            r.cond = xs[t - 1].abs().max(prev.abs()) / prev.abs();
            r.one(Dd::new(xs[t - 1]).subf(prev).divf(prev).mulf(100.0).f())
        }
        Kind::Er => {
            let xs = closes(hist);
            r.scale = 1.0;
            if t == 1 {
                r.neutral = true;
                r.degenerate = true;
                // documented: first output 1 (for a non-zero price)
                if xs[0] == 0.0 {
                    r.den_zero = true;
                }
                return r.one(1.0);
            }
            let base = if t > n { t - 1 - n } else { 0 };
            let mut vol = Dd::ZERO;
            for i in base + 1..t {
                vol = vol.add(Dd::new(xs[i]).subf(xs[i - 1]).abs());
            }
            r.degenerate = is_flat(&xs[base..]);
            if vol.is_zero() {
                r.den_zero = true;
                return r.one(0.0);
            }
            let wm = xs[base..].iter().fold(0.0f64, |a, x| a.max(x.abs()));
            r.cond = wm.max(vol.f()) / vol.f();
            r.one(Dd::new(xs[t - 1]).subf(xs[base]).abs().div(vol).f())
        }
        Kind::Ppo => {
            let xs: Vec<Dd> = closes(hist).iter().map(|x| Dd::new(*x)).collect();
            let f = ema_series(cfg.p[0], &xs);
            let s = ema_series(cfg.p[1], &xs);
            r.scale = 100.0;
            let mut ppo = Vec::with_capacity(t);
            let mut cmax: f64 = 1.0;
            for i in 0..t {
                if s[i].f() == 0.0 {
                    r.den_zero = true;
                    r.v = [0.0; 3];
                    r.n = 3;
                    return r;
                }
                ppo.push(f[i].sub(s[i]).div(s[i]).mulf(100.0));
                cmax = cmax.max(f[i].f().abs().max(s[i].f().abs()) / s[i].f().abs());
            }
            r.cond = cmax;
            let sig = ema_last(cfg.p[2], &ppo);
            let l = ppo[t - 1];
            r.v = [l.f(), sig.f(), l.sub(sig).f()];
            r.n = 3;
            let c = closes(hist);
            r.degenerate = is_flat(tail(&c, 2));
            r
        }
        Kind::Cci => {
            let bs = bars(hist);
            let w = tail(&bs, n);
            let tps: Vec<Dd> = w.iter().map(tp_dd).collect();
            let k = tps.len() as f64;
            let mut mean = Dd::ZERO;
            for x in &tps {
                mean = mean.add(*x);
            }
            let mean = mean.divf(k);
            let mut mad = Dd::ZERO;
            for x in &tps {
                mad = mad.add(x.sub(mean).abs());
            }
            let mad = mad.divf(k);
            r.scale = 1.0 / 0.015;
            // flat in the documented sense: all typical prices of the window equal
            let tpf: Vec<f64> = w.iter().map(|b| tp_dd(b).f()).collect();
            r.degenerate = is_flat(&tpf) && tps.iter().all(|x| x.sub(tps[0]).is_zero());
            if mad.is_zero() {
                r.neutral = true;
                return r.one(0.0);
            }
            r.cond = m / mad.f();
            r.den = mad.f();
            let tp = tps[tps.len() - 1];
            r.one(tp.sub(mean).div(mad.mul(Dd::new(3.0).divf(200.0))).f())
        }
        Kind::Mfi => {
            let bs = bars(hist);
            r.scale = 100.0;
            if t == 1 {
                r.neutral = true;
                r.degenerate = true;
                return r.one(50.0);
            }
            let tps: Vec<Dd> = bs.iter().map(tp_dd).collect();
            let moves = (t - 1).min(n);
            let mut pmf = Dd::ZERO;
            let mut nmf = Dd::ZERO;
            let mut maxflow: f64 = 0.0;
            for j in 1..t {
                let flow = tps[j].mulf(bs[j].v);
                let up = tps[j].gt(tps[j - 1]);
                let down = tps[j].lt(tps[j - 1]);
                if up || down {
                    maxflow = maxflow.max(flow.f().abs());
                }
                if j >= t - moves {
                    if up {
                        pmf = pmf.add(flow);
                    } else if down {
                        nmf = nmf.add(flow);
                    }
                }
            }
            let den = pmf.add(nmf);
            if den.is_zero() {
                r.den_zero = true;
                r.degenerate = true;
                return r.one(50.0);
            }
            r.cond = maxflow / den.f().abs();
            r.den = den.f();
            r.maxflow = maxflow;
            r.one(pmf.div(den).mulf(100.0).f())
        }
        Kind::Obv => {
            let bs = bars(hist);
            let mut obv = Dd::ZERO;
            let mut prev = 0.0;
            let mut cum = 0.0f64;
            for b in &bs {
                if b.c > prev {
                    obv = obv.addf(b.v);
                } else if b.c < prev {
                    obv = obv.subf(b.v);
                }
                cum += b.v.abs();
                prev = b.c;
            }
            r.scale = cum;
            r.one(obv.f())
        }
    }
}
