//! Shared plain types: bars, operations, outputs, f64 text encoding.

use serde::{Deserialize, Serialize};
use ta::{Close, High, Low, Open, Volume};

#[derive(Clone, Copy, Debug, PartialEq, Serialize, Deserialize)]
pub struct Bar {
    pub o: f64,
    pub h: f64,
    pub l: f64,
    pub c: f64,
    pub v: f64,
}

impl Bar {
    pub const fn hlc(h: f64, l: f64, c: f64) -> Bar {
        Bar { o: c, h, l, c, v: 1.0 }
    }
    pub const fn hlcv(h: f64, l: f64, c: f64, v: f64) -> Bar {
        Bar { o: c, h, l, c, v }
    }
    pub const fn one(x: f64) -> Bar {
        Bar { o: x, h: x, l: x, c: x, v: 1.0 }
    }
    pub fn tp(&self) -> f64 {
        (self.c + self.h + self.l) / 3.0
    }
    pub fn maxmag_hlc(&self) -> f64 {
        self.h.abs().max(self.l.abs()).max(self.c.abs())
    }
    pub fn valid(&self) -> bool {
        self.l <= self.c && self.c <= self.h && self.v >= 0.0
    }
}

impl Open for Bar {
    fn open(&self) -> f64 {
        self.o
    }
}
impl High for Bar {
    fn high(&self) -> f64 {
        self.h
    }
}
impl Low for Bar {
    fn low(&self) -> f64 {
        self.l
    }
}
impl Close for Bar {
    fn close(&self) -> f64 {
        self.c
    }
}
impl Volume for Bar {
    fn volume(&self) -> f64 {
        self.v
    }
}

/// A second implementor of the price traits: stores integers (milli-units)
/// and converts in the getters.  Used by C10 ("any type implementing the
/// price traits").
#[derive(Clone, Copy, Debug)]
pub struct MilliBar {
    pub o: i64,
    pub h: i64,
    pub l: i64,
    pub c: i64,
    pub v: i64,
}
impl MilliBar {
    pub fn to_bar(&self) -> Bar {
        Bar {
            o: self.open(),
            h: self.high(),
            l: self.low(),
            c: self.close(),
            v: self.volume(),
        }
    }
}
impl Open for MilliBar {
    fn open(&self) -> f64 {
        self.o as f64 / 1000.0
    }
}
impl High for MilliBar {
    fn high(&self) -> f64 {
        self.h as f64 / 1000.0
    }
}
impl Low for MilliBar {
    fn low(&self) -> f64 {
        self.l as f64 / 1000.0
    }
}
impl Close for MilliBar {
    fn close(&self) -> f64 {
        self.c as f64 / 1000.0
    }
}
impl Volume for MilliBar {
    fn volume(&self) -> f64 {
        self.v as f64 / 1000.0
    }
}

#[derive(Clone, Copy, Debug, PartialEq)]
pub enum Op {
    S(f64),
    B(Bar),
    Reset,
}

impl Op {
    pub fn maxmag(&self) -> f64 {
        match self {
            Op::S(x) => x.abs(),
            Op::B(b) => b.maxmag_hlc(),
            Op::Reset => 0.0,
        }
    }
}

/// Up to three f64 outputs of one `next` call.
#[derive(Clone, Copy, Debug)]
pub struct Out {
    pub v: [f64; 3],
    pub n: u8,
}

impl Out {
    pub const NONE: Out = Out { v: [0.0; 3], n: 0 };
    #[inline]
    pub fn one(x: f64) -> Out {
        Out { v: [x, 0.0, 0.0], n: 1 }
    }
    #[inline]
    pub fn two(a: f64, b: f64) -> Out {
        Out { v: [a, b, 0.0], n: 2 }
    }
    #[inline]
    pub fn three(a: f64, b: f64, c: f64) -> Out {
        Out { v: [a, b, c], n: 3 }
    }
    pub fn slice(&self) -> &[f64] {
        &self.v[..self.n as usize]
    }
    pub fn bits_eq(&self, o: &Out) -> bool {
        self.n == o.n && (0..self.n as usize).all(|i| self.v[i].to_bits() == o.v[i].to_bits())
    }
    pub fn all_finite(&self) -> bool {
        self.slice().iter().all(|x| x.is_finite())
    }
}

/// "within 1e-12 relative": equal, or both NaN, or |a-b| <= rel*max(|a|,|b|);
/// +0 == -0; infinities must match in sign.
pub fn rel_eq(a: f64, b: f64, rel: f64) -> bool {
    if a == b {
        return true;
    }
    if a.is_nan() || b.is_nan() {
        return a.is_nan() && b.is_nan();
    }
    if a.is_infinite() || b.is_infinite() {
        return false;
    }
    (a - b).abs() <= rel * a.abs().max(b.abs())
}

pub fn out_rel_eq(a: &Out, b: &Out, rel: f64) -> bool {
    a.n == b.n && (0..a.n as usize).all(|i| rel_eq(a.v[i], b.v[i], rel))
}

/// tau(t) = 1e-12 + 1e-15 * t^1.5
#[inline]
pub fn tau(t: usize) -> f64 {
    let tf = t as f64;
    1e-12 + 1e-15 * tf * tf.sqrt()
}

/// Text encoding of f64 that survives JSON (NaN / inf included).
pub fn f2s(x: f64) -> String {
    if x.is_nan() {
        "NaN".to_string()
    } else if x == f64::INFINITY {
        "inf".to_string()
    } else if x == f64::NEG_INFINITY {
        "-inf".to_string()
    } else {
        format!("{:?}", x)
    }
}

pub fn s2f(s: &str) -> Option<f64> {
    match s {
        "NaN" => Some(f64::NAN),
        "inf" => Some(f64::INFINITY),
        "-inf" => Some(f64::NEG_INFINITY),
        _ => s.parse::<f64>().ok(),
    }
}

/// Rust source literal for an f64.
pub fn f2rust(x: f64) -> String {
    if x.is_nan() {
        "f64::NAN".into()
    } else if x == f64::INFINITY {
        "f64::INFINITY".into()
    } else if x == f64::NEG_INFINITY {
        "f64::NEG_INFINITY".into()
    } else {
        format!("{:?}_f64", x)
    }
}

pub fn op2s(op: &Op) -> String {
    match op {
        Op::S(x) => format!("S {}", f2s(*x)),
        Op::B(b) => format!(
            "B {} {} {} {} {}",
            f2s(b.o),
            f2s(b.h),
            f2s(b.l),
            f2s(b.c),
            f2s(b.v)
        ),
        Op::Reset => "R".to_string(),
    }
}

pub fn s2op(s: &str) -> Option<Op> {
    let p: Vec<&str> = s.split_whitespace().collect();
    match p.as_slice() {
        ["R"] => Some(Op::Reset),
        ["S", x] => Some(Op::S(s2f(x)?)),
        ["B", o, h, l, c, v] => Some(Op::B(Bar {
            o: s2f(o)?,
            h: s2f(h)?,
            l: s2f(l)?,
            c: s2f(c)?,
            v: s2f(v)?,
        })),
        _ => None,
    }
}

pub fn out2s(o: &Out) -> String {
    let v: Vec<String> = o.slice().iter().map(|x| f2s(*x)).collect();
    format!("[{}]", v.join(", "))
}
