//! Alphabets (simplest symbol first, so the first counterexample is the shortest).

use crate::types::*;

pub const S_INT: [f64; 5] = [1.0, 0.0, -1.0, 3.0, -2.0];
/// three levels, for deep sequences (balanced windows: the mean equals the newest value, ...)
pub const S_NARROW: [f64; 3] = [2.0, 1.0, 3.0];
/// distinct values 1e-10..5e-10 (relative) apart: far above rounding, far below any tick - a "same value, skip the update" guard with a relative epsilon
pub const S_NEAR: [f64; 5] = [1.0, 1.0000000001, 0.9999999998, 1.0000000005, 2.0];
pub const S_POS: [f64; 4] = [1.0, 2.0, 4.0, 7.0];
pub const S_POS5: [f64; 5] = [1.0, 2.0, 4.0, 7.0, 2.5];
pub const S_ROUGH: [f64; 7] = [0.1, -0.3, 7.7, 1e-3, 16_777_217.0, 1e12, -1e12];
/// positive prices in a tiny unit (2^-60 ~ 8.7e-19): absolute epsilons and thresholds show here
pub const TINY: f64 = 8.673617379884035e-19;
pub const S_TINY: [f64; 4] = [1.0 * TINY, 2.0 * TINY, 4.0 * TINY, 7.0 * TINY];
/// values spanning 26 decades (outlier spikes)
pub const S_WIDE: [f64; 5] = [1.0, 3.0, 1e9, 1e17, 1e-9];
/// positive prices near the top of the f64 range: intermediate products such as 100 * x overflow here
pub const S_HUGE: [f64; 4] = [1e307, 7e307, 2e307, 4e307];
/// inexact positive prices (for spike alphabets: integers are exactly representable next to a 2.5e8 spike)
/// neighbouring subnormal prices (bits 3, 4, 5, 8) and the smallest normal: halving, or any
/// other "harmless" rescaling, is inexact here
pub const S_SUBNORMAL: [f64; 5] = [1.5e-323, 2.0e-323, 2.5e-323, 4.0e-323, 2.2250738585072014e-308];
/// finite values at both ends of the f64 range: differences and sums of two overflow
pub const S_SIGNED_MAX: [f64; 6] = [-1e308, 1e308, f64::MAX, f64::MIN, 1.0, 0.0];
/// same-sign prices within 20% of each other just below f64::MAX (1.797e308): any sum of two overflows
pub const S_NEARMAX: [f64; 4] = [1.0e308, 1.1e308, 1.2e308, 1.05e308];
pub const S_POS_X: [f64; 4] = [0.1, 0.7, 3.3, 1.3];
/// neighbours one and four ulps apart, and a second cluster at 5e-15
pub const S_ULP: [f64; 6] = [0.75, 0.7500000000000001, 0.7500000000000004, 1.0, 5.0e-15, 5.4e-15];
pub const S_SPECIAL: [f64; 7] = [
    f64::NAN,
    f64::INFINITY,
    f64::NEG_INFINITY,
    f64::MAX,
    -f64::MAX,
    5e-324,
    -0.0,
];

/// The 10 valid (high, low, close) bars on price levels {1, 2, 4}.
pub fn b_grid() -> Vec<Bar> {
    let lv = [1.0, 2.0, 4.0];
    let mut v = vec![];
    for &l in &lv {
        for &h in &lv {
            for &c in &lv {
                if l <= c && c <= h {
                    v.push(Bar::hlc(h, l, c));
                }
            }
        }
    }
    // simplest first: one-price bars first, then by range
    v.sort_by(|a, b| {
        let ra = a.h - a.l;
        let rb = b.h - b.l;
        ra.partial_cmp(&rb).unwrap().then(a.c.partial_cmp(&b.c).unwrap())
    });
    v
}

/// 6 representative bars x volume {1, 0, 3}
pub fn b_vol() -> Vec<Bar> {
    let base = [
        Bar::hlc(1.0, 1.0, 1.0),
        Bar::hlc(2.0, 1.0, 2.0),
        Bar::hlc(4.0, 2.0, 2.0),
        Bar::hlc(4.0, 1.0, 2.0),
        Bar::hlc(2.0, 2.0, 2.0),
        Bar::hlc(4.0, 4.0, 4.0),
    ];
    let mut v = vec![];
    for vol in [1.0, 0.0, 3.0] {
        for b in &base {
            v.push(Bar { v: vol, ..*b });
        }
    }
    v
}

/// 5 bars for MoneyFlowIndex: typical prices 1, 2, 2 (a different bar with the
/// same typical price), 3, 1 with volumes 1 / 2 - equal-TP neighbours, rises and falls
pub fn b_mfi() -> Vec<Bar> {
    vec![
        Bar::hlcv(1.0, 1.0, 1.0, 1.0),
        Bar::hlcv(2.0, 2.0, 2.0, 1.0),
        Bar::hlcv(3.0, 1.0, 2.0, 2.0),
        Bar::hlcv(3.0, 3.0, 3.0, 1.0),
        Bar::hlcv(1.5, 0.5, 1.0, 2.0),
    ]
}

/// valid bars with all prices near f64::MAX
pub fn b_nearmax() -> Vec<Bar> {
    vec![
        Bar { o: 1.0e308, h: 1.1e308, l: 1.0e308, c: 1.05e308, v: 1.0 },
        Bar { o: 1.1e308, h: 1.2e308, l: 1.05e308, c: 1.2e308, v: 2.0 },
        Bar { o: 1.05e308, h: 1.05e308, l: 1.05e308, c: 1.05e308, v: 1.0 },
        Bar { o: 1.2e308, h: 1.2e308, l: 1.0e308, c: 1.0e308, v: 3.0 },
    ]
}

/// 10 bars whose five fields are pairwise distinct and vary independently
/// (not valid OHLC).
pub fn b_free() -> Vec<Bar> {
    vec![
        Bar { o: 3.0, h: 5.0, l: 2.0, c: 4.0, v: 7.0 },
        Bar { o: 9.0, h: 1.5, l: 6.0, c: 2.5, v: 0.5 },
        Bar { o: 0.25, h: 8.0, l: 12.0, c: 1.0, v: 3.0 },
        Bar { o: 6.5, h: 2.0, l: 0.5, c: 11.0, v: 9.0 },
        Bar { o: 1.25, h: 4.0, l: 3.0, c: 0.75, v: 2.0 },
        Bar { o: 7.0, h: 10.0, l: 1.0, c: 5.0, v: 4.5 },
        Bar { o: 2.0, h: 0.5, l: 9.0, c: 7.5, v: 1.0 },
        Bar { o: 4.0, h: 3.0, l: 5.0, c: 6.0, v: 8.0 },
        // zero / negative fields: an "empty bar" special case would show here
        Bar { o: 5.5, h: 6.5, l: -1.0, c: 0.0, v: 2.5 },
        Bar { o: -3.0, h: 0.0, l: 8.5, c: -1.5, v: 0.0 },
    ]
}

/// Bars violating low <= close <= high or carrying non-finite fields (C12 only).
pub fn b_special() -> Vec<Bar> {
    vec![
        Bar { o: 1.0, h: 2.0, l: 1.0, c: 1.5, v: 1.0 },
        Bar { o: 1.0, h: 1.0, l: 2.0, c: 3.0, v: 1.0 },
        Bar { o: 1.0, h: f64::NAN, l: 1.0, c: 1.0, v: 1.0 },
        Bar { o: 1.0, h: 2.0, l: f64::NAN, c: 1.0, v: f64::NAN },
        Bar { o: 1.0, h: 2.0, l: 1.0, c: f64::NAN, v: 1.0 },
        Bar { o: 1.0, h: f64::INFINITY, l: f64::NEG_INFINITY, c: 0.0, v: f64::INFINITY },
        Bar { o: 1.0, h: f64::MAX, l: -f64::MAX, c: f64::MAX, v: f64::MAX },
        Bar { o: 0.0, h: 0.0, l: -0.0, c: 5e-324, v: -1.0 },
        Bar { o: 1.0, h: f64::NEG_INFINITY, l: f64::INFINITY, c: f64::NAN, v: 0.0 },
    ]
}

pub fn scale_bars(bs: &[Bar], c: f64) -> Vec<Bar> {
    bs.iter().map(|b| Bar { o: b.o * c, h: b.h * c, l: b.l * c, c: b.c * c, v: b.v }).collect()
}

/// 2.618 and 0.1 are not representable in f32 (a multiplier stored narrower shows only there)
pub const MULT: [f64; 6] = [2.0, 0.0, 0.5, 3.0, 2.618, 0.1];

pub const P_BIG: [usize; 16] = [6, 7, 8, 13, 16, 31, 32, 33, 64, 100, 255, 256, 257, 512, 1000, 1024];

pub fn s_ops(xs: &[f64]) -> Vec<Op> {
    xs.iter().map(|x| Op::S(*x)).collect()
}

pub fn b_ops(bs: &[Bar]) -> Vec<Op> {
    bs.iter().map(|b| Op::B(*b)).collect()
}

pub fn with_reset(mut v: Vec<Op>) -> Vec<Op> {
    v.push(Op::Reset);
    v
}

/// Deterministic LCG (part of the enumerated, replayable input; seeded by VERIF_SEED).
#[derive(Clone)]
pub struct Lcg(pub u64);
impl Lcg {
    pub fn new(seed: u64) -> Lcg {
        Lcg(seed.wrapping_mul(0x9E3779B97F4A7C15).wrapping_add(0x1234_5678_9abc_def1))
    }
    pub fn next_u64(&mut self) -> u64 {
        self.0 = self.0.wrapping_mul(6364136223846793005).wrapping_add(1442695040888963407);
        let mut x = self.0;
        x ^= x >> 33;
        x = x.wrapping_mul(0xff51afd7ed558ccd);
        x ^= x >> 33;
        x
    }
    /// uniform in [0,1)
    pub fn unit(&mut self) -> f64 {
        (self.next_u64() >> 11) as f64 / (1u64 << 53) as f64
    }
}

use crate::subjects::Kind;

/// Input family of an indicator for generic "all 22 indicators" checks:
/// close-only kinds get scalars, bar-only kinds get bars, kinds with both a
/// scalar path and a genuine bar path get a mix of both.
pub fn generic_alphabet(kind: Kind, special: bool) -> Vec<Op> {
    let sc = [Op::S(1.0), Op::S(2.0), Op::S(4.0), Op::S(7.0)];
    let bars = [
        Op::B(Bar::hlcv(1.0, 1.0, 1.0, 1.0)),
        Op::B(Bar::hlcv(2.0, 1.0, 2.0, 3.0)),
        Op::B(Bar::hlcv(4.0, 2.0, 2.0, 1.0)),
        Op::B(Bar::hlcv(4.0, 1.0, 2.0, 0.0)),
    ];
    let sp_s = [Op::S(f64::NAN), Op::S(f64::INFINITY), Op::S(f64::NEG_INFINITY), Op::S(-f64::MAX)];
    let sp_b = [
        Op::B(Bar { o: 1.0, h: f64::NAN, l: 1.0, c: f64::NAN, v: 1.0 }),
        Op::B(Bar { o: 1.0, h: f64::INFINITY, l: f64::NEG_INFINITY, c: f64::INFINITY, v: f64::INFINITY }),
        Op::B(Bar { o: 1.0, h: 1.0, l: 3.0, c: 2.0, v: f64::NAN }),
        Op::B(Bar { o: 1.0, h: f64::MAX, l: -f64::MAX, c: -f64::MAX, v: f64::MAX }),
    ];
    let mut v: Vec<Op> = vec![];
    if !kind.has_scalar() {
        v.extend(bars);
        if special {
            v.extend(sp_b);
        }
    } else if kind.bar_native() {
        v.extend([sc[0], bars[1], sc[2], bars[3]]);
        if special {
            v.extend([sp_s[0], sp_b[1], sp_s[2], sp_b[0], sp_s[1]]);
        }
    } else {
        v.extend(sc);
        if special {
            v.extend(sp_s);
        }
    }
    v
}

/// Inexact variant of an alphabet: every finite price x becomes 0.7 x + 0.013
/// (monotone, spans several binades, sums and products no longer exact) -
/// needed wherever the oracle is bit-equality, so that a different summation
/// order or buffer layout becomes observable.
pub fn roughen(ops: &[Op]) -> Vec<Op> {
    let f = |x: f64| if x.is_finite() { x * 0.7 + 0.013 } else { x };
    ops.iter()
        .map(|op| match op {
            Op::S(x) => Op::S(f(*x)),
            Op::B(b) => Op::B(Bar { o: f(b.o), h: f(b.h), l: f(b.l), c: f(b.c), v: if b.v.is_finite() && b.v != 0.0 { b.v * 1.3 + 0.07 } else { b.v } }),
            Op::Reset => Op::Reset,
        })
        .collect()
}

/// Continuation alphabet: finite values plus NaN and +inf.
pub fn continuation_alphabet(kind: Kind) -> Vec<Op> {
    let mut v: Vec<Op> = vec![];
    if !kind.has_scalar() {
        v.extend([
            Op::B(Bar::hlcv(2.0, 1.0, 2.0, 3.0)),
            Op::B(Bar::hlcv(4.0, 2.0, 3.0, 1.0)),
            Op::B(Bar::hlcv(1.0, 1.0, 1.0, 2.0)),
            Op::B(Bar { o: 1.0, h: f64::NAN, l: f64::NAN, c: f64::NAN, v: f64::NAN }),
            Op::B(Bar { o: 1.0, h: f64::INFINITY, l: 1.0, c: f64::INFINITY, v: 1.0 }),
            // a valid bar at negative prices (spreads): zero / -inf initial values are not neutral there
            Op::B(Bar { o: -2.5, h: -1.0, l: -3.0, c: -2.0, v: 5.0 }),
        ]);
    } else if kind.bar_native() {
        v.extend([
            Op::S(2.0),
            Op::B(Bar::hlcv(4.0, 2.0, 3.0, 1.0)),
            Op::S(1.0),
            Op::S(f64::NAN),
            Op::B(Bar { o: 1.0, h: f64::INFINITY, l: 1.0, c: f64::INFINITY, v: 1.0 }),
            Op::S(-2.0),
        ]);
    } else {
        v.extend([Op::S(2.0), Op::S(4.0), Op::S(1.0), Op::S(f64::NAN), Op::S(f64::INFINITY), Op::S(-2.0)]);
    }
    v
}

/// Standard configuration sets for the generic checks.
pub fn generic_cfgs(kind: Kind, periods: &[usize], tuple_vals: &[usize]) -> Vec<crate::subjects::Cfg> {
    use crate::subjects::Cfg;
    let mut v = vec![];
    match kind.nperiods() {
        0 => v.push(Cfg::p0(kind)),
        1 => {
            for &p in periods {
                if kind.has_mult() {
                    v.push(Cfg::pm(kind, p, 2.0));
                } else {
                    v.push(Cfg::p1(kind, p));
                }
            }
            if kind.has_mult() {
                v.push(Cfg::pm(kind, periods[periods.len() / 2], 0.5));
            }
        }
        2 => {
            for &a in tuple_vals {
                for &b in tuple_vals {
                    v.push(Cfg::p2(kind, a, b));
                }
            }
        }
        _ => {
            for &a in tuple_vals {
                for &b in tuple_vals {
                    for &c in tuple_vals {
                        v.push(Cfg::p3(kind, a, b, c));
                    }
                }
            }
        }
    }
    v
}
