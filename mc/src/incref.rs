//! Incremental double-double reference for LONG runs of the recursion-based
//! indicators (C02 / C03 long-run stages).  The from-scratch evaluation of an
//! EMA over the whole history *is* the recursion executed in order, so carrying
//! the recursion state in double-double from step to step yields the same
//! reference value as `refm::reference` at O(1) (windowed parts: O(n)) per step.
//! Independent of the implementation under test: different arithmetic (dd),
//! own windows, formulas taken from the statements.

use crate::dd::Dd;
use crate::refm::{alpha, Ref};
use crate::subjects::{Cfg, Kind};
use crate::types::*;
use std::collections::VecDeque;

struct Ema {
    a: Dd,
    b: Dd,
    cur: Option<Dd>,
}
impl Ema {
    fn new(n: usize) -> Ema {
        let a = alpha(n);
        Ema { a, b: Dd::ONE.sub(a), cur: None }
    }
    fn next(&mut self, x: Dd) -> Dd {
        let v = match self.cur {
            None => x,
            Some(c) => self.a.mul(x).add(self.b.mul(c)),
        };
        self.cur = Some(v);
        v
    }
}

pub struct IncRef {
    cfg: Cfg,
    t: usize,
    m: f64,
    e: Vec<Ema>,
    prev_close: Option<f64>,
    bars: VecDeque<Bar>,
    closes: VecDeque<f64>,
    obv: Dd,
    cumvol: f64,
    cmax: f64,
}

fn tp(b: &Bar) -> Dd {
    Dd::new(b.c).addf(b.h).addf(b.l).divf(3.0)
}

impl IncRef {
    pub fn new(cfg: &Cfg) -> IncRef {
        let p = cfg.p;
        let e = match cfg.kind {
            Kind::Ema | Kind::Atr => vec![Ema::new(p[0])],
            Kind::Macd | Kind::Ppo => vec![Ema::new(p[0]), Ema::new(p[1]), Ema::new(p[2])],
            Kind::Kc => vec![Ema::new(p[0]), Ema::new(p[0])],
            Kind::Ce => vec![Ema::new(p[0])],
            Kind::Rsi => vec![Ema::new(p[0]), Ema::new(p[0])],
            Kind::SlowStoch => vec![Ema::new(p[1])],
            _ => vec![],
        };
        IncRef { cfg: *cfg, t: 0, m: 0.0, e, prev_close: None, bars: VecDeque::new(), closes: VecDeque::new(), obv: Dd::ZERO, cumvol: 0.0, cmax: 1.0 }
    }

    fn tr(&self, b: &Bar) -> Dd {
        let hl = Dd::new(b.h).subf(b.l);
        match self.prev_close {
            None => hl,
            Some(pc) => hl.max(Dd::new(b.h).subf(pc).abs()).max(Dd::new(b.l).subf(pc).abs()),
        }
    }

    fn fast(&self, n: usize) -> (Dd, f64, bool) {
        let k = self.bars.len();
        let w = self.bars.iter().skip(k.saturating_sub(n));
        let mut hi = f64::NEG_INFINITY;
        let mut lo = f64::INFINITY;
        for b in w {
            hi = hi.max(b.h);
            lo = lo.min(b.l);
        }
        let x = self.bars[k - 1].c;
        if hi == lo {
            return (Dd::new(50.0), 1.0, true);
        }
        let den = Dd::new(hi).subf(lo);
        (Dd::new(x).subf(lo).div(den).mulf(100.0), x.abs().max(hi.abs()).max(lo.abs()) / den.f().abs(), false)
    }

    /// Feed one input (scalar inputs are one-price bars for the bar-native kinds) and
    /// return the reference for the output of this step.
    pub fn step(&mut self, op: &Op) -> Ref {
        self.t += 1;
        self.m = self.m.max(op.maxmag());
        let bar_input = matches!(op, Op::B(_));
        let b = match op {
            Op::S(x) => Bar::one(*x),
            Op::B(b) => *b,
            Op::Reset => unreachable!(),
        };
        let n = self.cfg.p[0];
        let mut r = Ref { v: [0.0; 3], n: 1, var: f64::NAN, cond: 1.0, den_zero: false, neutral: false, degenerate: false, m: self.m, scale: self.m, wmin: f64::NAN, wmax: f64::NAN, den: f64::NAN, maxflow: 0.0 };
        match self.cfg.kind {
            Kind::Ema => {
                r.v[0] = self.e[0].next(Dd::new(b.c)).f();
            }
            Kind::Tr => {
                r.v[0] = self.tr(&b).f();
            }
            Kind::Atr => {
                let tr = self.tr(&b);
                r.v[0] = self.e[0].next(tr).f();
            }
            Kind::Macd => {
                let f = self.e[0].next(Dd::new(b.c));
                let s = self.e[1].next(Dd::new(b.c));
                let line = f.sub(s);
                let sig = self.e[2].next(line);
                r.v = [line.f(), sig.f(), line.sub(sig).f()];
                r.n = 3;
            }
            Kind::Kc => {
                let price = if bar_input { tp(&b) } else { Dd::new(b.c) };
                let avg = self.e[0].next(price);
                let tr = self.tr(&b);
                let atr = self.e[1].next(tr);
                r.v = [avg.f(), avg.add(atr.mulf(self.cfg.mult)).f(), avg.sub(atr.mulf(self.cfg.mult)).f()];
                r.n = 3;
            }
            Kind::Ce => {
                let tr = self.tr(&b);
                let atr = self.e[0].next(tr);
                self.bars.push_back(b);
                if self.bars.len() > n {
                    self.bars.pop_front();
                }
                let hi = self.bars.iter().map(|x| x.h).fold(f64::NEG_INFINITY, f64::max);
                let lo = self.bars.iter().map(|x| x.l).fold(f64::INFINITY, f64::min);
                r.v = [Dd::new(hi).sub(atr.mulf(self.cfg.mult)).f(), Dd::new(lo).add(atr.mulf(self.cfg.mult)).f(), 0.0];
                r.n = 2;
            }
            Kind::Rsi => {
                r.scale = 100.0;
                let (g, l) = match self.prev_close {
                    None => (Dd::new(0.1), Dd::new(0.1)),
                    Some(p) => {
                        if b.c > p {
                            (Dd::new(b.c).subf(p), Dd::ZERO)
                        } else {
                            (Dd::ZERO, Dd::new(p).subf(b.c))
                        }
                    }
                };
                let u = self.e[0].next(g);
                let d = self.e[1].next(l);
                let den = u.add(d);
                if !(den.f() > 1e-280) {
                    r.den_zero = true;
                    r.v[0] = 50.0;
                } else {
                    r.cond = self.m.max(u.f()).max(d.f()) / den.f();
                    r.v[0] = u.div(den).mulf(100.0).f();
                }
            }
            Kind::FastStoch | Kind::SlowStoch => {
                r.scale = 100.0;
                self.bars.push_back(b);
                if self.bars.len() > n {
                    self.bars.pop_front();
                }
                let (v, c, dz) = self.fast(n);
                if self.cfg.kind == Kind::FastStoch {
                    r.cond = c;
                    r.neutral = dz;
                    r.v[0] = v.f();
                } else {
                    self.cmax = self.cmax.max(c);
                    r.cond = self.cmax;
                    r.v[0] = self.e[0].next(v).f();
                }
            }
            Kind::Roc => {
                r.scale = 100.0;
                self.closes.push_back(b.c);
                if self.closes.len() > n + 1 {
                    self.closes.pop_front();
                }
                let prev = self.closes[0];
                if prev == 0.0 {
                    r.den_zero = true;
                } else {
                    r.cond = b.c.abs().max(prev.abs()) / prev.abs();
                    r.v[0] = Dd::new(b.c).subf(prev).divf(prev).mulf(100.0).f();
                }
            }
            Kind::Er => {
                r.scale = 1.0;
                self.closes.push_back(b.c);
                if self.closes.len() > n + 1 {
                    self.closes.pop_front();
                }
                if self.t == 1 {
                    r.neutral = true;
                    r.den_zero = b.c == 0.0;
                    r.v[0] = 1.0;
                } else {
                    let mut vol = Dd::ZERO;
                    for i in 1..self.closes.len() {
                        vol = vol.add(Dd::new(self.closes[i]).subf(self.closes[i - 1]).abs());
                    }
                    if vol.is_zero() {
                        r.den_zero = true;
                    } else {
                        let wm = self.closes.iter().fold(0.0f64, |a, x| a.max(x.abs()));
                        r.cond = wm.max(vol.f()) / vol.f();
                        r.v[0] = Dd::new(b.c).subf(self.closes[0]).abs().div(vol).f();
                    }
                }
            }
            Kind::Ppo => {
                r.scale = 100.0;
                r.n = 3;
                let f = self.e[0].next(Dd::new(b.c));
                let s = self.e[1].next(Dd::new(b.c));
                if s.f() == 0.0 {
                    r.den_zero = true;
                } else {
                    let line = f.sub(s).div(s).mulf(100.0);
                    self.cmax = self.cmax.max(f.f().abs().max(s.f().abs()) / s.f().abs());
                    r.cond = self.cmax;
                    let sig = self.e[2].next(line);
                    r.v = [line.f(), sig.f(), line.sub(sig).f()];
                }
            }
            Kind::Obv => {
                let prev = self.prev_close.unwrap_or(0.0);
                if b.c > prev {
                    self.obv = self.obv.addf(b.v);
                } else if b.c < prev {
                    self.obv = self.obv.subf(b.v);
                }
                self.cumvol += b.v.abs();
                r.scale = self.cumvol;
                r.v[0] = self.obv.f();
            }
            _ => unreachable!("IncRef: unsupported kind"),
        }
        self.prev_close = Some(b.c);
        r
    }
}
