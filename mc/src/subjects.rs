//! Registry of the 22 indicators: a uniform dynamic interface over the real
//! `ta` types.  Nothing here models behaviour - every method forwards to the
//! crate under test.

use crate::types::*;
use ta::indicators::*;
use ta::{DataItem, Next, Period, Reset};

#[derive(Clone, Copy, PartialEq, Eq, Hash, Debug, PartialOrd, Ord)]
pub enum Kind {
    Ema,
    Sma,
    Wma,
    Sd,
    Mad,
    Rsi,
    Min,
    Max,
    FastStoch,
    SlowStoch,
    Tr,
    Atr,
    Macd,
    Ppo,
    Cci,
    Er,
    Bb,
    Ce,
    Kc,
    Roc,
    Mfi,
    Obv,
}

pub const ALL_KINDS: [Kind; 22] = [
    Kind::Ema,
    Kind::Sma,
    Kind::Wma,
    Kind::Sd,
    Kind::Mad,
    Kind::Rsi,
    Kind::Min,
    Kind::Max,
    Kind::FastStoch,
    Kind::SlowStoch,
    Kind::Tr,
    Kind::Atr,
    Kind::Macd,
    Kind::Ppo,
    Kind::Cci,
    Kind::Er,
    Kind::Bb,
    Kind::Ce,
    Kind::Kc,
    Kind::Roc,
    Kind::Mfi,
    Kind::Obv,
];

impl Kind {
    pub fn name(self) -> &'static str {
        match self {
            Kind::Ema => "EMA",
            Kind::Sma => "SMA",
            Kind::Wma => "WMA",
            Kind::Sd => "SD",
            Kind::Mad => "MAD",
            Kind::Rsi => "RSI",
            Kind::Min => "MIN",
            Kind::Max => "MAX",
            Kind::FastStoch => "FAST_STOCH",
            Kind::SlowStoch => "SLOW_STOCH",
            Kind::Tr => "TRUE_RANGE",
            Kind::Atr => "ATR",
            Kind::Macd => "MACD",
            Kind::Ppo => "PPO",
            Kind::Cci => "CCI",
            Kind::Er => "ER",
            Kind::Bb => "BB",
            Kind::Ce => "CE",
            Kind::Kc => "KC",
            Kind::Roc => "ROC",
            Kind::Mfi => "MFI",
            Kind::Obv => "OBV",
        }
    }
    pub fn rust_type(self) -> &'static str {
        match self {
            Kind::Ema => "ExponentialMovingAverage",
            Kind::Sma => "SimpleMovingAverage",
            Kind::Wma => "WeightedMovingAverage",
            Kind::Sd => "StandardDeviation",
            Kind::Mad => "MeanAbsoluteDeviation",
            Kind::Rsi => "RelativeStrengthIndex",
            Kind::Min => "Minimum",
            Kind::Max => "Maximum",
            Kind::FastStoch => "FastStochastic",
            Kind::SlowStoch => "SlowStochastic",
            Kind::Tr => "TrueRange",
            Kind::Atr => "AverageTrueRange",
            Kind::Macd => "MovingAverageConvergenceDivergence",
            Kind::Ppo => "PercentagePriceOscillator",
            Kind::Cci => "CommodityChannelIndex",
            Kind::Er => "EfficiencyRatio",
            Kind::Bb => "BollingerBands",
            Kind::Ce => "ChandelierExit",
            Kind::Kc => "KeltnerChannel",
            Kind::Roc => "RateOfChange",
            Kind::Mfi => "MoneyFlowIndex",
            Kind::Obv => "OnBalanceVolume",
        }
    }
    pub fn from_name(s: &str) -> Option<Kind> {
        ALL_KINDS.iter().copied().find(|k| k.name() == s)
    }
    /// number of period arguments
    pub fn nperiods(self) -> usize {
        match self {
            Kind::Tr | Kind::Obv => 0,
            Kind::SlowStoch => 2,
            Kind::Macd | Kind::Ppo => 3,
            _ => 1,
        }
    }
    pub fn has_mult(self) -> bool {
        matches!(self, Kind::Bb | Kind::Kc | Kind::Ce)
    }
    pub fn has_scalar(self) -> bool {
        !matches!(self, Kind::Cci | Kind::Ce | Kind::Mfi | Kind::Obv)
    }
    pub fn has_period_trait(self) -> bool {
        !matches!(
            self,
            Kind::SlowStoch | Kind::Tr | Kind::Macd | Kind::Ppo | Kind::Obv
        )
    }
    /// Does the constructor allocate a window (so huge periods are out of reach)?
    pub fn allocates(self) -> bool {
        !matches!(
            self,
            Kind::Ema | Kind::Rsi | Kind::Atr | Kind::Macd | Kind::Ppo | Kind::Kc | Kind::Tr | Kind::Obv
        )
    }
    /// Bar path differs from "scalar path on close" (reads high/low/volume).
    pub fn bar_native(self) -> bool {
        matches!(
            self,
            Kind::FastStoch
                | Kind::SlowStoch
                | Kind::Tr
                | Kind::Atr
                | Kind::Kc
                | Kind::Ce
                | Kind::Cci
                | Kind::Mfi
                | Kind::Obv
                | Kind::Min
                | Kind::Max
        )
    }
    /// documented defaults
    pub fn default_cfg(self) -> Cfg {
        match self {
            Kind::Ema | Kind::Sma | Kind::Wma | Kind::Sd | Kind::Mad | Kind::Roc => Cfg::p1(self, 9),
            Kind::Rsi | Kind::Atr | Kind::Er | Kind::Mfi | Kind::Min | Kind::Max | Kind::FastStoch => {
                Cfg::p1(self, 14)
            }
            Kind::SlowStoch => Cfg::p2(self, 14, 3),
            Kind::Macd | Kind::Ppo => Cfg::p3(self, 12, 26, 9),
            Kind::Cci => Cfg::p1(self, 20),
            Kind::Bb => Cfg::pm(self, 9, 2.0),
            Kind::Kc => Cfg::pm(self, 10, 2.0),
            Kind::Ce => Cfg::pm(self, 22, 3.0),
            Kind::Tr | Kind::Obv => Cfg::p0(self),
        }
    }
    /// Number of most recent inputs the output depends on (None = whole history).
    pub fn window(self, cfg: &Cfg) -> Option<usize> {
        match self {
            Kind::Sma | Kind::Wma | Kind::Sd | Kind::Mad | Kind::Min | Kind::Max | Kind::FastStoch | Kind::Bb | Kind::Cci => {
                Some(cfg.p[0])
            }
            Kind::Roc | Kind::Er | Kind::Mfi => Some(cfg.p[0] + 1),
            Kind::Tr => Some(2),
            _ => None,
        }
    }
}

#[derive(Clone, Copy, Debug, PartialEq)]
pub struct Cfg {
    pub kind: Kind,
    pub p: [usize; 3],
    pub mult: f64,
}

impl Cfg {
    pub fn p0(kind: Kind) -> Cfg {
        Cfg { kind, p: [0; 3], mult: 0.0 }
    }
    pub fn p1(kind: Kind, a: usize) -> Cfg {
        Cfg { kind, p: [a, 0, 0], mult: 0.0 }
    }
    pub fn p2(kind: Kind, a: usize, b: usize) -> Cfg {
        Cfg { kind, p: [a, b, 0], mult: 0.0 }
    }
    pub fn p3(kind: Kind, a: usize, b: usize, c: usize) -> Cfg {
        Cfg { kind, p: [a, b, c], mult: 0.0 }
    }
    pub fn pm(kind: Kind, a: usize, m: f64) -> Cfg {
        Cfg { kind, p: [a, 0, 0], mult: m }
    }
    /// Generic: first `nperiods` of `ps` (cycled), multiplier `m` if the kind has one.
    pub fn of(kind: Kind, ps: &[usize], m: f64) -> Cfg {
        let mut p = [0usize; 3];
        for i in 0..kind.nperiods() {
            p[i] = ps[i % ps.len().max(1)];
        }
        Cfg { kind, p, mult: if kind.has_mult() { m } else { 0.0 } }
    }
    pub fn periods(&self) -> &[usize] {
        &self.p[..self.kind.nperiods()]
    }
    pub fn sum_periods(&self) -> usize {
        self.periods().iter().fold(0usize, |a, p| a.saturating_add(*p))
    }
    pub fn max_period(&self) -> usize {
        self.periods().iter().copied().max().unwrap_or(1)
    }
    /// The text Display must render, built from the arguments and the name table.
    pub fn display_text(&self) -> String {
        match self.kind {
            Kind::Tr => "TRUE_RANGE()".to_string(),
            Kind::Obv => "OBV".to_string(),
            k if k.has_mult() => format!("{}({}, {})", k.name(), self.p[0], self.mult),
            k => {
                let ps: Vec<String> = self.periods().iter().map(|p| p.to_string()).collect();
                format!("{}({})", k.name(), ps.join(", "))
            }
        }
    }
    pub fn descr(&self) -> String {
        match self.kind {
            Kind::Tr | Kind::Obv => format!("{}()", self.kind.name()),
            k if k.has_mult() => format!("{}({}, {})", k.name(), self.p[0], f2s(self.mult)),
            _ => self.display_text(),
        }
    }
    /// Rust expression constructing this configuration.
    pub fn rust_new(&self) -> String {
        let k = self.kind;
        match k {
            Kind::Tr | Kind::Obv => format!("{}::new()", k.rust_type()),
            k if k.has_mult() => format!("{}::new({}, {}).unwrap()", k.rust_type(), self.p[0], f2rust(self.mult)),
            _ => {
                let ps: Vec<String> = self.periods().iter().map(|p| p.to_string()).collect();
                format!("{}::new({}).unwrap()", k.rust_type(), ps.join(", "))
            }
        }
    }
}

pub trait Subject: Send {
    fn next_s(&mut self, x: f64) -> Out;
    fn next_b(&mut self, b: &Bar) -> Out;
    fn next_milli(&mut self, b: &MilliBar) -> Out;
    fn next_di(&mut self, b: &DataItem) -> Out;
    fn reset(&mut self);
    fn dup(&self) -> Box<dyn Subject>;
    fn as_any(&self) -> &dyn std::any::Any;
    /// `Clone::clone_from`: make `self` a copy of `other` (same indicator type); false if the types differ.
    fn assign_from(&mut self, other: &dyn Subject) -> bool;
    fn ser(&self) -> Result<Vec<u8>, String>;
    fn de(&self, bytes: &[u8]) -> Result<Box<dyn Subject>, String>;
    fn ser_json(&self) -> Result<String, String>;
    fn de_json(&self, s: &str) -> Result<Box<dyn Subject>, String>;
    fn dbg(&self) -> String;
    fn disp(&self) -> String;
    /// Display through a format spec: 0 `{:>24}`, 1 `{:<24}`, 2 `{:+}`, 3 `{:08}`, 4 `{:.3}`
    fn disp_spec(&self, spec: u8) -> String;
    fn period(&self) -> Option<usize>;
    fn multiplier(&self) -> Option<f64>;

    fn apply(&mut self, op: &Op) -> Out {
        match op {
            Op::S(x) => self.next_s(*x),
            Op::B(b) => self.next_b(b),
            Op::Reset => {
                self.reset();
                Out::NONE
            }
        }
    }
}

trait ToOut {
    fn to_out(self) -> Out;
}
impl ToOut for f64 {
    #[inline]
    fn to_out(self) -> Out {
        Out::one(self)
    }
}
impl ToOut for BollingerBandsOutput {
    #[inline]
    fn to_out(self) -> Out {
        Out::three(self.average, self.upper, self.lower)
    }
}
impl ToOut for KeltnerChannelOutput {
    #[inline]
    fn to_out(self) -> Out {
        Out::three(self.average, self.upper, self.lower)
    }
}
impl ToOut for MovingAverageConvergenceDivergenceOutput {
    #[inline]
    fn to_out(self) -> Out {
        Out::three(self.macd, self.signal, self.histogram)
    }
}
impl ToOut for PercentagePriceOscillatorOutput {
    #[inline]
    fn to_out(self) -> Out {
        Out::three(self.ppo, self.signal, self.histogram)
    }
}
impl ToOut for ChandelierExitOutput {
    #[inline]
    fn to_out(self) -> Out {
        Out::two(self.long, self.short)
    }
}

macro_rules! subject_impl {
    ($wrap:ident, $ty:ty, scalar = $scalar:tt, period = $period:tt, mult = $mult:tt) => {
        pub struct $wrap(pub $ty);
        impl Subject for $wrap {
            #[inline]
            fn next_s(&mut self, _x: f64) -> Out {
                subject_impl!(@scalar $scalar, self, _x)
            }
            #[inline]
            fn next_b(&mut self, b: &Bar) -> Out {
                self.0.next(b).to_out()
            }
            fn next_milli(&mut self, b: &MilliBar) -> Out {
                self.0.next(b).to_out()
            }
            fn next_di(&mut self, b: &DataItem) -> Out {
                self.0.next(b).to_out()
            }
            #[inline]
            fn reset(&mut self) {
                self.0.reset()
            }
            fn dup(&self) -> Box<dyn Subject> {
                Box::new($wrap(self.0.clone()))
            }
            fn as_any(&self) -> &dyn std::any::Any {
                self
            }
            fn assign_from(&mut self, other: &dyn Subject) -> bool {
                match other.as_any().downcast_ref::<$wrap>() {
                    Some(o) => {
                        self.0.clone_from(&o.0);
                        true
                    }
                    None => false,
                }
            }
            fn ser(&self) -> Result<Vec<u8>, String> {
                bincode::serialize(&self.0).map_err(|e| e.to_string())
            }
            fn de(&self, bytes: &[u8]) -> Result<Box<dyn Subject>, String> {
                let v: $ty = bincode::deserialize(bytes).map_err(|e| e.to_string())?;
                Ok(Box::new($wrap(v)))
            }
            fn ser_json(&self) -> Result<String, String> {
                serde_json::to_string(&self.0).map_err(|e| e.to_string())
            }
            fn de_json(&self, s: &str) -> Result<Box<dyn Subject>, String> {
                let v: $ty = serde_json::from_str(s).map_err(|e| e.to_string())?;
                Ok(Box::new($wrap(v)))
            }
            fn dbg(&self) -> String {
                format!("{:?}", self.0)
            }
            fn disp(&self) -> String {
                format!("{}", self.0)
            }
            fn disp_spec(&self, spec: u8) -> String {
                match spec {
                    0 => format!("{:>24}", self.0),
                    1 => format!("{:<24}", self.0),
                    2 => format!("{:+}", self.0),
                    3 => format!("{:08}", self.0),
                    _ => format!("{:.3}", self.0),
                }
            }
            fn period(&self) -> Option<usize> {
                subject_impl!(@period $period, self)
            }
            fn multiplier(&self) -> Option<f64> {
                subject_impl!(@mult $mult, self)
            }
        }
    };
    (@scalar yes, $s:ident, $x:ident) => { $s.0.next($x).to_out() };
    (@scalar no, $s:ident, $x:ident) => { panic!("harness: no scalar path") };
    (@period yes, $s:ident) => { Some($s.0.period()) };
    (@period no, $s:ident) => { None };
    (@mult yes, $s:ident) => { Some($s.0.multiplier()) };
    (@mult no, $s:ident) => { None };
}

subject_impl!(WEma, ExponentialMovingAverage, scalar = yes, period = yes, mult = no);
subject_impl!(WSma, SimpleMovingAverage, scalar = yes, period = yes, mult = no);
subject_impl!(WWma, WeightedMovingAverage, scalar = yes, period = yes, mult = no);
subject_impl!(WSd, StandardDeviation, scalar = yes, period = yes, mult = no);
subject_impl!(WMad, MeanAbsoluteDeviation, scalar = yes, period = yes, mult = no);
subject_impl!(WRsi, RelativeStrengthIndex, scalar = yes, period = yes, mult = no);
subject_impl!(WMin, Minimum, scalar = yes, period = yes, mult = no);
subject_impl!(WMax, Maximum, scalar = yes, period = yes, mult = no);
subject_impl!(WFast, FastStochastic, scalar = yes, period = yes, mult = no);
subject_impl!(WSlow, SlowStochastic, scalar = yes, period = no, mult = no);
subject_impl!(WTr, TrueRange, scalar = yes, period = no, mult = no);
subject_impl!(WAtr, AverageTrueRange, scalar = yes, period = yes, mult = no);
subject_impl!(WMacd, MovingAverageConvergenceDivergence, scalar = yes, period = no, mult = no);
subject_impl!(WPpo, PercentagePriceOscillator, scalar = yes, period = no, mult = no);
subject_impl!(WCci, CommodityChannelIndex, scalar = no, period = yes, mult = no);
subject_impl!(WEr, EfficiencyRatio, scalar = yes, period = yes, mult = no);
subject_impl!(WBb, BollingerBands, scalar = yes, period = yes, mult = yes);
subject_impl!(WCe, ChandelierExit, scalar = no, period = yes, mult = yes);
subject_impl!(WKc, KeltnerChannel, scalar = yes, period = yes, mult = yes);
subject_impl!(WRoc, RateOfChange, scalar = yes, period = yes, mult = no);
subject_impl!(WMfi, MoneyFlowIndex, scalar = no, period = yes, mult = no);
subject_impl!(WObv, OnBalanceVolume, scalar = no, period = no, mult = no);

/// Construct the real indicator through its public constructor.
pub fn try_make(cfg: &Cfg) -> Result<Box<dyn Subject>, ta::errors::TaError> {
    let p = cfg.p;
    Ok(match cfg.kind {
        Kind::Ema => Box::new(WEma(ExponentialMovingAverage::new(p[0])?)),
        Kind::Sma => Box::new(WSma(SimpleMovingAverage::new(p[0])?)),
        Kind::Wma => Box::new(WWma(WeightedMovingAverage::new(p[0])?)),
        Kind::Sd => Box::new(WSd(StandardDeviation::new(p[0])?)),
        Kind::Mad => Box::new(WMad(MeanAbsoluteDeviation::new(p[0])?)),
        Kind::Rsi => Box::new(WRsi(RelativeStrengthIndex::new(p[0])?)),
        Kind::Min => Box::new(WMin(Minimum::new(p[0])?)),
        Kind::Max => Box::new(WMax(Maximum::new(p[0])?)),
        Kind::FastStoch => Box::new(WFast(FastStochastic::new(p[0])?)),
        Kind::SlowStoch => Box::new(WSlow(SlowStochastic::new(p[0], p[1])?)),
        Kind::Tr => Box::new(WTr(TrueRange::new())),
        Kind::Atr => Box::new(WAtr(AverageTrueRange::new(p[0])?)),
        Kind::Macd => Box::new(WMacd(MovingAverageConvergenceDivergence::new(p[0], p[1], p[2])?)),
        Kind::Ppo => Box::new(WPpo(PercentagePriceOscillator::new(p[0], p[1], p[2])?)),
        Kind::Cci => Box::new(WCci(CommodityChannelIndex::new(p[0])?)),
        Kind::Er => Box::new(WEr(EfficiencyRatio::new(p[0])?)),
        Kind::Bb => Box::new(WBb(BollingerBands::new(p[0], cfg.mult)?)),
        Kind::Ce => Box::new(WCe(ChandelierExit::new(p[0], cfg.mult)?)),
        Kind::Kc => Box::new(WKc(KeltnerChannel::new(p[0], cfg.mult)?)),
        Kind::Roc => Box::new(WRoc(RateOfChange::new(p[0])?)),
        Kind::Mfi => Box::new(WMfi(MoneyFlowIndex::new(p[0])?)),
        Kind::Obv => Box::new(WObv(OnBalanceVolume::new())),
    })
}

pub fn make(cfg: &Cfg) -> Box<dyn Subject> {
    match try_make(cfg) {
        Ok(s) => s,
        Err(e) => panic!("harness: cannot construct {}: {:?}", cfg.descr(), e),
    }
}

/// `Default::default()` of the real type.
pub fn make_default(kind: Kind) -> Box<dyn Subject> {
    match kind {
        Kind::Ema => Box::new(WEma(Default::default())),
        Kind::Sma => Box::new(WSma(Default::default())),
        Kind::Wma => Box::new(WWma(Default::default())),
        Kind::Sd => Box::new(WSd(Default::default())),
        Kind::Mad => Box::new(WMad(Default::default())),
        Kind::Rsi => Box::new(WRsi(Default::default())),
        Kind::Min => Box::new(WMin(Default::default())),
        Kind::Max => Box::new(WMax(Default::default())),
        Kind::FastStoch => Box::new(WFast(Default::default())),
        Kind::SlowStoch => Box::new(WSlow(Default::default())),
        Kind::Tr => Box::new(WTr(Default::default())),
        Kind::Atr => Box::new(WAtr(Default::default())),
        Kind::Macd => Box::new(WMacd(Default::default())),
        Kind::Ppo => Box::new(WPpo(Default::default())),
        Kind::Cci => Box::new(WCci(Default::default())),
        Kind::Er => Box::new(WEr(Default::default())),
        Kind::Bb => Box::new(WBb(Default::default())),
        Kind::Ce => Box::new(WCe(Default::default())),
        Kind::Kc => Box::new(WKc(Default::default())),
        Kind::Roc => Box::new(WRoc(Default::default())),
        Kind::Mfi => Box::new(WMfi(Default::default())),
        Kind::Obv => Box::new(WObv(Default::default())),
    }
}

/// Replay a history on a fresh instance, returning the output of every op.
pub fn replay(cfg: &Cfg, ops: &[Op]) -> Vec<Out> {
    let mut s = make(cfg);
    ops.iter().map(|op| s.apply(op)).collect()
}

/// Replay and return only the last output.
#[inline]
pub fn replay_last(cfg: &Cfg, ops: &[Op]) -> Out {
    let mut s = make(cfg);
    let mut last = Out::NONE;
    for op in ops {
        last = s.apply(op);
    }
    last
}
