//! Comparison of an implementation output with the reference value at exactly
//! the tolerance the property statements grant (C01, C02, C03; reused by C13,
//! C17).  Inapplicable steps (zero reference denominator, c > gate) are
//! reported as Skip - never as failures.

use crate::refm::{reference, Ref};
use crate::subjects::{Cfg, Kind};
use crate::types::*;

pub enum Verdict {
    /// applicable and within tolerance; payload = worst |err|/tol of the components
    Ok(f64),
    Skip(&'static str),
    Fail { obs: String, exp: String, detail: String },
}

pub const COND_GATE: f64 = 1e6;

fn fail(out: &Out, r: &Ref, detail: String) -> Verdict {
    Verdict::Fail {
        obs: out2s(out),
        exp: format!("{:?}", &r.v[..r.n]),
        detail,
    }
}

/// One component compared with absolute tolerance `tol`.
#[inline]
fn cmp(worst: &mut f64, got: f64, want: f64, tol: f64) -> bool {
    if !got.is_finite() {
        return false;
    }
    let err = (got - want).abs();
    if err <= tol {
        if tol > 0.0 {
            *worst = worst.max(err / tol);
        }
        true
    } else {
        false
    }
}

/// Compare `out` (output of the last op of `hist`) against the reference.
/// `hist` = inputs since construction / last reset.
pub fn compare(cfg: &Cfg, hist: &[Op], out: &Out) -> Verdict {
    let r = reference(cfg, hist);
    compare_with(cfg, hist.len(), &r, out)
}

pub fn compare_with(cfg: &Cfg, t: usize, r: &Ref, out: &Out) -> Verdict {
    let tau = tau(t);
    let m = r.m;
    let mut worst = 0.0f64;
    if out.n as usize != r.n {
        return fail(out, r, "wrong number of outputs".into());
    }
    let o = out.v;
    match cfg.kind {
        // ---- C01 family
        Kind::Sma | Kind::Wma | Kind::Mad => {
            if !cmp(&mut worst, o[0], r.v[0], tau * m) {
                return fail(out, r, format!("|err|={:.3e} > tau(t)*M={:.3e} (t={}, M={})", (o[0] - r.v[0]).abs(), tau * m, t, m));
            }
        }
        Kind::Min | Kind::Max => {
            if !(o[0] == r.v[0]) {
                return fail(out, r, "window extreme must be exact".into());
            }
        }
        Kind::Sd => {
            let tol = tau * m * m;
            if !cmp(&mut worst, o[0] * o[0], r.var, tol) || (o[0] < 0.0 && o[0] * o[0] > tol) {
                return fail(
                    out,
                    r,
                    format!("variance {:e} vs reference {:e}, tol tau(t)*M^2={:.3e} (t={}, M={})", o[0] * o[0], r.var, tol, t, m),
                );
            }
        }
        Kind::Bb => {
            if !cmp(&mut worst, o[0], r.v[0], tau * m) {
                return fail(out, r, format!("average off by {:.3e} > {:.3e}", (o[0] - r.v[0]).abs(), tau * m));
            }
            if cfg.mult.is_finite() {
                let k = cfg.mult;
                let sd_ref = r.var.max(0.0).sqrt();
                let tol = tau * m * m * k * k + 8.0 * f64::EPSILON * m * k.abs() * sd_ref;
                for (hw, name) in [(o[1] - o[0], "upper"), (o[0] - o[2], "lower")] {
                    let sign_ok = hw * k >= 0.0 || hw * hw <= tol || hw == 0.0;
                    if !cmp(&mut worst, hw * hw, k * k * r.var, tol) || !sign_ok {
                        return fail(
                            out,
                            r,
                            format!("{} half-width {:e}: squared {:e} vs mult^2*variance {:e}, tol {:.3e}", name, hw, hw * hw, k * k * r.var, tol),
                        );
                    }
                }
            }
        }
        // ---- C02 family
        Kind::Ema | Kind::Tr | Kind::Atr | Kind::Macd => {
            for i in 0..r.n {
                if !cmp(&mut worst, o[i], r.v[i], tau * m) {
                    return fail(out, r, format!("component {} off by {:.3e} > tau(t)*M={:.3e} (t={}, M={})", i, (o[i] - r.v[i]).abs(), tau * m, t, m));
                }
            }
        }
        Kind::Kc | Kind::Ce => {
            if !cfg.mult.is_finite() {
                return Verdict::Skip("non-finite multiplier");
            }
            let s = cfg.mult.abs().max(1.0);
            for i in 0..r.n {
                if !cmp(&mut worst, o[i], r.v[i], tau * m * s) {
                    return fail(out, r, format!("component {} off by {:.3e} > tau(t)*M*max(1,|mult|)={:.3e} (t={}, M={})", i, (o[i] - r.v[i]).abs(), tau * m * s, t, m));
                }
            }
        }
        // ---- C03 family
        Kind::Rsi | Kind::FastStoch | Kind::SlowStoch | Kind::Roc | Kind::Er | Kind::Ppo | Kind::Cci | Kind::Mfi | Kind::Obv => {
            if r.den_zero {
                return Verdict::Skip("reference denominator is 0");
            }
            if cfg.kind == Kind::Cci && r.neutral {
                // MAD_ref = 0: c is infinite; the neutral value is C08's business
                return Verdict::Skip("CCI with zero reference MAD (C08)");
            }
            if !(r.cond <= COND_GATE) {
                return Verdict::Skip("condition number above gate");
            }
            let tol = tau * r.cond * r.scale;
            for i in 0..r.n {
                // PPO histogram is a difference of two outputs: allow both tolerances
                let tl = if cfg.kind == Kind::Ppo && i == 2 { 2.0 * tol } else { tol };
                if !cmp(&mut worst, o[i], r.v[i], tl) {
                    return fail(
                        out,
                        r,
                        format!(
                            "component {} off by {:.3e} > tau(t)*c*scale={:.3e} (t={}, c={:.3e}, scale={:.4e})",
                            i,
                            (o[i] - r.v[i]).abs(),
                            tl,
                            t,
                            r.cond,
                            r.scale
                        ),
                    );
                }
            }
        }
    }
    Verdict::Ok(worst)
}
