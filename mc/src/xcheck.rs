//! Second engine: the same "real object + reference window" model handed to
//! stateright 0.31 (explicit-state BFS by an independent, published checker).
//! It snapshots real objects with Clone, which is why it is the cross-check and
//! not the deciding engine.  seqmc and stateright must agree on the number of
//! unique states and on the verdict; a disagreement is a machinery error.

use crate::engine::{since_reset, state_key};
use crate::oracle::{compare, Verdict};
use crate::subjects::{make, Cfg, Subject};
use crate::types::*;
use stateright::{Checker, Model, Property};
use std::hash::{Hash, Hasher};
use std::sync::Mutex;

pub struct Obj(pub Mutex<Box<dyn Subject>>);

impl Clone for Obj {
    fn clone(&self) -> Self {
        Obj(Mutex::new(self.0.lock().unwrap().dup()))
    }
}
impl Obj {
    fn key(&self) -> u128 {
        state_key(self.0.lock().unwrap().as_ref(), &[])
    }
}

#[derive(Clone)]
pub struct St {
    pub obj: Obj,
    /// last `refwin` symbols since reset
    pub win: Vec<u8>,
    /// largest magnitude since reset (bits)
    pub mbits: u64,
    pub bad: bool,
}

impl PartialEq for St {
    fn eq(&self, o: &St) -> bool {
        self.win == o.win && self.mbits == o.mbits && self.bad == o.bad && self.obj.key() == o.obj.key()
    }
}
impl Hash for St {
    fn hash<H: Hasher>(&self, h: &mut H) {
        self.obj.key().hash(h);
        self.win.hash(h);
        self.mbits.hash(h);
    }
}
impl std::fmt::Debug for St {
    fn fmt(&self, f: &mut std::fmt::Formatter) -> std::fmt::Result {
        write!(f, "St({} win={:?} bad={})", self.obj.0.lock().unwrap().dbg(), self.win, self.bad)
    }
}

pub struct IndModel {
    pub cfg: Cfg,
    pub alphabet: Vec<Op>,
    pub refwin: usize,
}

impl Model for IndModel {
    type State = St;
    type Action = u8;
    fn init_states(&self) -> Vec<St> {
        vec![St { obj: Obj(Mutex::new(make(&self.cfg))), win: vec![], mbits: 0f64.to_bits(), bad: false }]
    }
    fn actions(&self, _s: &St, actions: &mut Vec<u8>) {
        for a in 0..self.alphabet.len() {
            actions.push(a as u8);
        }
    }
    fn next_state(&self, s: &St, a: u8) -> Option<St> {
        let obj = s.obj.clone();
        let op = self.alphabet[a as usize];
        let out = obj.0.lock().unwrap().apply(&op);
        let (win, mbits, bad) = if matches!(op, Op::Reset) {
            (vec![], 0f64.to_bits(), s.bad)
        } else {
            let mut w = s.win.clone();
            w.push(a);
            if w.len() > self.refwin {
                w.remove(0);
            }
            let m = f64::from_bits(s.mbits).max(op.maxmag());
            // the reference needs only the window for the windowed subjects used here
            let hist: Vec<Op> = w.iter().map(|i| self.alphabet[*i as usize]).collect();
            let bad = match compare(&self.cfg, since_reset(&hist), &out) {
                Verdict::Fail { .. } => true,
                _ => s.bad,
            };
            (w, m.to_bits(), bad)
        };
        Some(St { obj, win, mbits, bad })
    }
    fn properties(&self) -> Vec<Property<Self>> {
        vec![Property::<Self>::always("output equals reference", |_, s| !s.bad)]
    }
}

pub struct XResult {
    pub unique_states: usize,
    pub discoveries: usize,
    pub max_depth: usize,
}

/// `cap`: stop after that many states (the caller passes a bound derived from seqmc's closed graph, so a
/// state space that stopped being finite cannot keep the cross-check running for ever).
pub fn run_indicator(cfg: &Cfg, alphabet: &[Op], refwin: usize, threads: usize, cap: usize) -> XResult {
    let m = IndModel { cfg: *cfg, alphabet: alphabet.to_vec(), refwin };
    // stateright's target counts GENERATED states (every successor of every expanded state, duplicates
    // included), the caller's cap is in unique states
    let c = m.checker().threads(threads).target_state_count(cap.saturating_mul(alphabet.len() + 1)).spawn_bfs().join();
    XResult { unique_states: c.unique_state_count(), discoveries: c.discoveries().len(), max_depth: c.max_depth() }
}

// ---- the DataItem builder as a 161 051-state graph (C16)

pub struct BuilderModel;

impl Model for BuilderModel {
    /// (field index 0 = unset, k = lattice value k-1; last = "build() disagreed with the reference")
    type State = ([u8; 5], bool);
    type Action = (u8, u8);
    fn init_states(&self) -> Vec<Self::State> {
        vec![([0; 5], false)]
    }
    fn actions(&self, _s: &Self::State, actions: &mut Vec<Self::Action>) {
        for f in 0..5u8 {
            for v in 1..=10u8 {
                actions.push((f, v));
            }
        }
    }
    fn next_state(&self, s: &Self::State, a: Self::Action) -> Option<Self::State> {
        // replay the canonical path of s on a fresh real builder, then the action, then build()
        let mut path = crate::props::c16::canonical_path(&s.0);
        path.push((a.0, crate::props::c16::LATTICE[a.1 as usize - 1]));
        let ok = crate::props::c16::agrees(&path);
        let mut n = s.0;
        n[a.0 as usize] = a.1;
        Some((n, s.1 || !ok))
    }
    fn properties(&self) -> Vec<Property<Self>> {
        vec![Property::<Self>::always("build() equals reference predicate", |_, s| !s.1)]
    }
}

pub fn run_builder(threads: usize) -> XResult {
    let c = BuilderModel.checker().threads(threads).spawn_bfs().join();
    XResult { unique_states: c.unique_state_count(), discoveries: c.discoveries().len(), max_depth: c.max_depth() }
}

// ---- lifecycle graph (C04): inputs + reset, keyed on the concrete state only

#[derive(Clone)]
pub struct LSt {
    pub obj: Obj,
    /// reset() led to a state whose key differs from a fresh instance's
    pub reset_not_fresh: bool,
}
impl PartialEq for LSt {
    fn eq(&self, o: &LSt) -> bool {
        self.reset_not_fresh == o.reset_not_fresh && self.obj.key() == o.obj.key()
    }
}
impl Hash for LSt {
    fn hash<H: Hasher>(&self, h: &mut H) {
        self.obj.key().hash(h);
    }
}
impl std::fmt::Debug for LSt {
    fn fmt(&self, f: &mut std::fmt::Formatter) -> std::fmt::Result {
        write!(f, "LSt({})", self.obj.0.lock().unwrap().dbg())
    }
}

pub struct LifeModel {
    pub cfg: Cfg,
    pub alphabet: Vec<Op>,
    pub fresh_key: u128,
}

impl Model for LifeModel {
    type State = LSt;
    type Action = u8;
    fn init_states(&self) -> Vec<LSt> {
        vec![LSt { obj: Obj(Mutex::new(make(&self.cfg))), reset_not_fresh: false }]
    }
    fn actions(&self, _s: &LSt, actions: &mut Vec<u8>) {
        for a in 0..self.alphabet.len() {
            actions.push(a as u8);
        }
    }
    fn next_state(&self, s: &LSt, a: u8) -> Option<LSt> {
        let obj = s.obj.clone();
        let op = self.alphabet[a as usize];
        obj.0.lock().unwrap().apply(&op);
        let bad = s.reset_not_fresh || (matches!(op, Op::Reset) && obj.key() != self.fresh_key);
        Some(LSt { obj, reset_not_fresh: bad })
    }
    fn properties(&self) -> Vec<Property<Self>> {
        vec![Property::<Self>::always("reset() reaches the fresh state", |_, s| !s.reset_not_fresh)]
    }
}

pub fn run_lifecycle(cfg: &Cfg, alphabet: &[Op], threads: usize, cap: usize) -> XResult {
    let fresh_key = state_key(make(cfg).as_ref(), &[]);
    let m = LifeModel { cfg: *cfg, alphabet: alphabet.to_vec(), fresh_key };
    // (generated states, see run_indicator)
    let c = m.checker().threads(threads).target_state_count(cap.saturating_mul(alphabet.len() + 1)).spawn_bfs().join();
    XResult { unique_states: c.unique_state_count(), discoveries: c.discoveries().len(), max_depth: c.max_depth() }
}
