//! C12 - next() is total: no panic or out-of-bounds for any input and valid configuration.

use crate::alpha::*;
use crate::engine::*;
use crate::report::CheckResult;
use crate::subjects::{make, Cfg, Kind, ALL_KINDS};
use crate::types::*;
use serde_json::json;
use std::collections::BTreeSet;

pub const PROP: &str = "C12";

/// integer (cursor / counter / flag) fields of the Debug rendering
fn cursor_signature(dbg: &str) -> String {
    let mut sig = String::new();
    let bytes = dbg.as_bytes();
    let mut i = 0;
    while i < bytes.len() {
        // find "name: value"
        if bytes[i] == b':' && i + 1 < bytes.len() && bytes[i + 1] == b' ' {
            let mut j = i + 2;
            let start = j;
            while j < bytes.len() && (bytes[j].is_ascii_alphanumeric() || bytes[j] == b'.' || bytes[j] == b'-' || bytes[j] == b'+') {
                j += 1;
            }
            let val = &dbg[start..j];
            if !val.is_empty() && (val.chars().all(|c| c.is_ascii_digit()) || val == "true" || val == "false") {
                // name
                let mut k = i;
                while k > 0 && (bytes[k - 1].is_ascii_alphanumeric() || bytes[k - 1] == b'_') {
                    k -= 1;
                }
                let name = &dbg[k..i];
                if name != "period" {
                    sig.push_str(name);
                    sig.push('=');
                    sig.push_str(val);
                    sig.push(' ');
                }
            }
            i = j;
        } else {
            i += 1;
        }
    }
    sig
}

/// Run a history and, in the final state, also Display, Debug, clone and serialize.
fn run_total(cfg: &Cfg, ops: &[Op], sigs: Option<&mut BTreeSet<String>>) -> Result<(), (usize, &'static str)> {
    run_total_on(cfg, ops, sigs, false)
}

/// `default_instance`: the instance comes from `Default::default()` instead of `new(..)`
fn run_total_on(cfg: &Cfg, ops: &[Op], sigs: Option<&mut BTreeSet<String>>, default_instance: bool) -> Result<(), (usize, &'static str)> {
    let mut step = 0usize;
    let mut phase: &'static str = "next/reset";
    let mut sig = None;
    let r = std::panic::catch_unwind(std::panic::AssertUnwindSafe(|| {
        let mut s = if default_instance { crate::subjects::make_default(cfg.kind) } else { make(cfg) };
        for op in ops {
            s.apply(op);
            step += 1;
        }
        phase = "Display";
        let _ = s.disp();
        phase = "Debug";
        let d = s.dbg();
        sig = Some(cursor_signature(&d));
        phase = "clone";
        let c = s.dup();
        phase = "clone_from (other parameters)";
        {
            // Clone::clone_from between instances with different parameters, both directions
            let mut other_cfg = *cfg;
            for p in other_cfg.p.iter_mut().take(cfg.kind.nperiods()) {
                *p = if *p > 2 { *p - 1 } else { *p + 2 };
            }
            let mut o = make(&other_cfg);
            let mut d = s.dup();
            d.assign_from(o.as_ref());
            o.assign_from(s.as_ref());
            let _ = o.dbg();
        }
        phase = "serialize";
        let b = s.ser();
        phase = "clone.next";
        drop(c);
        if let Ok(bytes) = &b {
            phase = "deserialize";
            if let Ok(mut r) = s.de(bytes) {
                phase = "next on the restored copy";
                if let Some(op) = ops.iter().rev().find(|o| !matches!(o, Op::Reset)) {
                    r.apply(op);
                }
                phase = "reset on the restored copy";
                r.reset();
                if let Some(op) = ops.iter().find(|o| !matches!(o, Op::Reset)) {
                    r.apply(op);
                }
            }
        }
        b.is_ok()
    }));
    if let (Some(set), Some(sg)) = (sigs, sig) {
        if set.len() < 100_000 {
            set.insert(sg);
        }
    }
    match r {
        Ok(true) => Ok(()),
        Ok(false) => Err((step, "serialize returned Err")),
        Err(_) => Err((step, phase)),
    }
}

fn report(cfg: &Cfg, ops: &[Op], step: usize, phase: &str, out: &mut JobOut, extra: String) {
    let upto = if phase == "next/reset" { (step + 1).min(ops.len()) } else { ops.len() };
    out.fail(
        Violation::new(PROP, cfg, &ops[..upto], "panic")
            .obs(format!("panic / failure in {} (after {} completed calls)", phase, step))
            .exp("every call returns normally".into())
            .det(extra),
    );
}

fn special_alphabet(kind: Kind) -> Vec<Op> {
    let mut v: Vec<Op> = vec![];
    if kind.has_scalar() {
        v.push(Op::S(1.0));
        v.extend(S_SPECIAL.iter().map(|x| Op::S(*x)));
        if kind.bar_native() {
            // mix in the worst bars too
            let bs = b_special();
            v[3] = Op::B(bs[1]);
            v[5] = Op::B(bs[5]);
            v.push(Op::B(bs[8]));
        }
    } else {
        v.extend(b_special().iter().map(|b| Op::B(*b)));
    }
    v.push(Op::Reset);
    v
}

fn ordinary(kind: Kind, i: usize) -> Op {
    let x = 10.0 + ((i * 7) % 11) as f64 - ((i * 3) % 5) as f64 * 0.5;
    if kind.has_scalar() && !(kind.bar_native() && i % 2 == 1) {
        Op::S(x)
    } else {
        Op::B(Bar { o: x, h: x + 1.0 + (i % 3) as f64, l: x - 1.0 - (i % 2) as f64, c: x + 0.5 - (i % 4) as f64 * 0.5, v: (i % 5) as f64 })
    }
}

fn deviations(kind: Kind) -> Vec<Op> {
    let mut v: Vec<Op> = vec![];
    if kind.has_scalar() {
        v.extend(S_SPECIAL.iter().map(|x| Op::S(*x)));
    }
    if !kind.has_scalar() || kind.bar_native() {
        v.extend(b_special()[1..].iter().map(|b| Op::B(*b)));
    }
    v.push(Op::Reset);
    v
}

pub fn run(ctx: &Ctx) -> CheckResult {
    let mut res = CheckResult::new(PROP, "model_checking");
    let th = ctx.tier_thorough;
    let depth = if th { 6 } else { 5 };
    // (a) exhaustive sequences over special values, periods 1..4
    let mut cfgs = vec![];
    for k in ALL_KINDS {
        cfgs.extend(generic_cfgs(k, &[1, 2, 3, 4], &[1, 2, 3]).into_iter().filter(|c| !(c.kind.has_mult() && c.mult == 0.5)));
        if k.has_mult() {
            for m in [0.0, -1.0, f64::NAN, 1e300, f64::INFINITY] {
                cfgs.push(Cfg::pm(k, 2, m));
            }
        }
    }
    let mut jobs: Vec<(Cfg, usize)> = vec![];
    for c in &cfgs {
        for a in 0..special_alphabet(c.kind).len() {
            jobs.push((*c, a));
        }
    }
    let outs = par_run(ctx, &jobs, |_, (cfg, first)| {
        let mut out = JobOut::default();
        let alpha = special_alphabet(cfg.kind);
        let mut ops: Vec<Op> = vec![];
        let mut n = 0u64;
        for_each_seq(alpha.len(), Some(*first), depth, |seq| {
            n += 1;
            if n % 2048 == 0 && ctx.out_of_time() {
                out.stats.capped.push(format!("time cap in {}", cfg.descr()));
                return false;
            }
            ops.clear();
            ops.extend(seq.iter().map(|&a| alpha[a as usize]));
            out.stats.states += 1;
            out.stats.traces += 1;
            out.stats.transitions += ops.len() as u64 + 4;
            out.stats.evaluations += 1;
            if ops.len() > cfg.max_period() {
                out.stats.nontrivial += 1;
            }
            match run_total(cfg, &ops, None) {
                Ok(()) => {
                    if ops.len() >= 4 {
                        out.stats.sample(|| format!("{} ops=[{}] then Display, Debug, clone, serialize: all returned", cfg.descr(), ops_text(&ops)));
                    }
                    true
                }
                Err((step, phase)) => {
                    report(cfg, &ops, step, phase, &mut out, "exhaustive special-value sequence".into());
                    false
                }
            }
        });
        out
    });
    res.absorb(merge_jobs(outs));

    // (a') the same on instances obtained from Default::default() (reset / Debug / clone / serialize before
    // the first input included: the empty sequence and sequences starting with reset are part of the space)
    if !res.out.failed() {
        let kinds: Vec<Kind> = ALL_KINDS.to_vec();
        let d2 = depth.min(4);
        let outs = par_run(ctx, &kinds, |_, &k| {
            let mut out = JobOut::default();
            let cfg = k.default_cfg();
            let alpha = special_alphabet(k);
            let mut ops: Vec<Op> = vec![];
            // the empty history first
            if let Err((step, phase)) = run_total_on(&cfg, &[], None, true) {
                report(&cfg, &[], step, phase, &mut out, format!("instance from {}::default(), before any input", k.rust_type()));
                return out;
            }
            for_each_seq(alpha.len(), None, d2, |seq| {
                ops.clear();
                ops.extend(seq.iter().map(|&a| alpha[a as usize]));
                out.stats.states += 1;
                out.stats.traces += 1;
                out.stats.transitions += ops.len() as u64 + 4;
                out.stats.evaluations += 1;
                match run_total_on(&cfg, &ops, None, true) {
                    Ok(()) => true,
                    Err((step, phase)) => {
                        report(&cfg, &ops, step, phase, &mut out, format!("instance from {}::default()", k.rust_type()));
                        false
                    }
                }
            });
            out
        });
        res.absorb(merge_jobs(outs));
    }

    // (a+) periods beyond 2^32 for the indicators that allocate no window of that size: every special-value
    // sequence up to depth 3 (overflow checks on: "period + 1" style arithmetic)
    if !res.out.failed() {
        let mut hp: Vec<Cfg> = vec![];
        for &n in &[(1usize << 32) + 2, usize::MAX - 1, usize::MAX] {
            hp.push(Cfg::p1(Kind::Ema, n));
            hp.push(Cfg::p1(Kind::Atr, n));
            hp.push(Cfg::p1(Kind::Rsi, n));
            hp.push(Cfg::pm(Kind::Kc, n, 2.0));
            hp.push(Cfg::p3(Kind::Macd, n, 5, n));
            hp.push(Cfg::p3(Kind::Ppo, 3, n, 2));
            hp.push(Cfg::p2(Kind::SlowStoch, 3, n));
        }
        let outs = par_run(ctx, &hp, |_, cfg| {
            let mut out = JobOut::default();
            let alpha = special_alphabet(cfg.kind);
            let mut ops: Vec<Op> = vec![];
            for_each_seq(alpha.len(), None, 3, |seq| {
                ops.clear();
                ops.extend(seq.iter().map(|&a| alpha[a as usize]));
                out.stats.states += 1;
                out.stats.traces += 1;
                out.stats.transitions += ops.len() as u64 + 4;
                out.stats.evaluations += 1;
                match run_total(cfg, &ops, None) {
                    Ok(()) => true,
                    Err((step, phase)) => {
                        report(cfg, &ops, step, phase, &mut out, "period beyond 2^32".into());
                        false
                    }
                }
            });
            out
        });
        res.absorb(merge_jobs(outs));
    }

    // (a'') flat runs around a reset: v^a, reset, v^b, then a move and two more inputs, for every a and b
    // up to 2n+2 (run-length counters and "nothing changed" fast paths that outlive the reset)
    if !res.out.failed() {
        let mut fl: Vec<Cfg> = vec![];
        for k in ALL_KINDS {
            fl.extend(generic_cfgs(k, &[1, 2, 3, 4, 5, 7, 8], &[2, 4]).into_iter().filter(|c| !(c.kind.has_mult() && c.mult == 0.5)));
        }
        let outs = par_run(ctx, &fl, |_, cfg| {
            let mut out = JobOut::default();
            let n = cfg.max_period();
            let sym = |x: f64, i: usize| -> Op {
                if cfg.kind.has_scalar() && !(cfg.kind.bar_native() && i % 2 == 1) {
                    Op::S(x)
                } else {
                    Op::B(Bar { o: x, h: x, l: x, c: x, v: 1.0 })
                }
            };
            for a in 0..=2 * n + 2 {
                for b in 0..=2 * n + 2 {
                    let mut ops: Vec<Op> = (0..a).map(|i| sym(0.25, i)).collect();
                    ops.push(Op::Reset);
                    ops.extend((0..b).map(|i| sym(0.25, i)));
                    ops.extend([sym(0.26, 0), sym(0.26, 1), sym(0.25, 0)]);
                    out.stats.states += 1;
                    out.stats.traces += 1;
                    out.stats.transitions += ops.len() as u64;
                    out.stats.evaluations += 1;
                    if let Err((step, phase)) = run_total(cfg, &ops, None) {
                        report(cfg, &ops, step, phase, &mut out, format!("flat run of {} inputs, reset, flat run of {} inputs at the same value, then a one-tick move", a, b));
                        return out;
                    }
                }
            }
            out
        });
        res.absorb(merge_jobs(outs));
    }

    // (b)+(c) every period 1..=64 (+ sampled large ones): default stream with k deviations at every position
    let mut cursor_rows = vec![];
    if !res.out.failed() {
        let mut periods: Vec<usize> = (1..=64).collect();
        periods.extend([100usize, 257, 1000, 4096]);
        let mut jobs: Vec<Cfg> = vec![];
        for k in ALL_KINDS {
            if k.nperiods() == 0 {
                jobs.push(Cfg::p0(k));
                continue;
            }
            for &p in &periods {
                jobs.push(Cfg::of(k, &[p, (p % 7) + 1, (p % 5) + 1], if p % 3 == 0 { 0.0 } else { 2.5 }));
                if k.nperiods() >= 2 && p <= 64 {
                    jobs.push(Cfg::of(k, &[(p % 5) + 1, p, p], 2.0));
                }
            }
        }
        jobs.sort_by_key(|c| std::cmp::Reverse(c.max_period()));
        let outs = par_run(ctx, &jobs, |_, cfg| {
            let mut out = JobOut::default();
            let n = cfg.max_period();
            let len = 3 * n + 3;
            let base: Vec<Op> = (0..len).map(|i| ordinary(cfg.kind, i)).collect();
            let devs = deviations(cfg.kind);
            let mut sigs: BTreeSet<String> = BTreeSet::new();
            // k = 0: every prefix length (covers every reachable cursor state)
            let heavy = n > 64;
            for l in 1..=len {
                if heavy && !(l == 1 || l == n - 1 || l == n || l == n + 1 || l == 2 * n || l == 2 * n + 1 || l == len) {
                    continue;
                }
                out.stats.states += 1;
                out.stats.traces += 1;
                out.stats.transitions += l as u64 + 4;
                out.stats.evaluations += 1;
                out.stats.nontrivial += 1;
                if let Err((step, phase)) = run_total(cfg, &base[..l], Some(&mut sigs)) {
                    report(cfg, &base[..l], step, phase, &mut out, "default stream".into());
                    return (out, 0);
                }
            }
            // k = 1: each deviation at every position, run to the end
            let positions: Vec<usize> = if !heavy {
                (0..len).collect()
            } else {
                let mut v: Vec<usize> = vec![0, 1, n - 2, n - 1, n, n + 1, 2 * n - 1, 2 * n, 2 * n + 1, 3 * n - 1, 3 * n, len - 1];
                if n <= 257 {
                    v.extend((0..len).step_by((n / 8).max(1)));
                }
                v.sort();
                v.dedup();
                v
            };
            let slow_kind = matches!(cfg.kind, Kind::Mad | Kind::Cci | Kind::Er) && n >= 1000;
            let devs: Vec<Op> = if slow_kind { vec![devs[0], devs[1], Op::Reset] } else { devs };
            let mut ops = base.clone();
            for p in positions {
                if ctx.out_of_time() {
                    out.stats.capped.push(format!("time cap in {}", cfg.descr()));
                    break;
                }
                for d in &devs {
                    ops[p] = *d;
                    // run at least n+2 past the deviation (window flushed), to the end for small n
                    let upto = if heavy { (p + n + 3).min(len) } else { len };
                    out.stats.states += 1;
                    out.stats.traces += 1;
                    out.stats.transitions += upto as u64 + 4;
                    out.stats.evaluations += 1;
                    out.stats.nontrivial += 1;
                    if let Err((step, phase)) = run_total(cfg, &ops[..upto], None) {
                        report(cfg, &ops[..upto], step, phase, &mut out, format!("default stream with {} at position {}", op2s(d), p));
                        return (out, 0);
                    }
                }
                ops[p] = base[p];
            }
            // k = 2 (thorough, n <= 16): every pair of positions, 3 deviation kinds
            if th && n <= 16 {
                let d2 = [devs[0], devs[devs.len() - 2], Op::Reset];
                for p in 0..len {
                    for q in p + 1..len {
                        for a in &d2 {
                            for b in &d2 {
                                ops[p] = *a;
                                ops[q] = *b;
                                out.stats.states += 1;
                                out.stats.traces += 1;
                                out.stats.transitions += len as u64 + 4;
                                out.stats.evaluations += 1;
                                if let Err((step, phase)) = run_total(cfg, &ops, None) {
                                    report(cfg, &ops, step, phase, &mut out, format!("deviations at positions {} and {}", p, q));
                                    return (out, 0);
                                }
                            }
                        }
                        ops[q] = base[q];
                    }
                    ops[p] = base[p];
                }
            }
            (out, sigs.len())
        });
        for (cfg, (o, nsig)) in jobs.iter().zip(outs) {
            if cfg.max_period() <= 8 || cfg.max_period() == 64 {
                cursor_rows.push(json!({"subject": cfg.descr(), "distinct_cursor_states_on_default_stream": nsig}));
            }
            res.absorb(o);
        }
    }
    // (b0) EVERY period 1..=1100 (and 2^k-1, 2^k, 2^k+1 up to 2^16) on the default stream, 2n+3 inputs:
    // a fixed-size scratch array, a bit mask or a narrow cursor fails for exactly one period value
    if !res.out.failed() {
        let mut periods: Vec<usize> = (65..=1100).collect();
        for k in 11..=16u32 {
            periods.extend([(1usize << k) - 1, 1 << k, (1 << k) + 1]);
        }
        let mut jobs: Vec<Cfg> = vec![];
        for k in ALL_KINDS {
            if k.nperiods() == 0 {
                continue;
            }
            for &p in &periods {
                if p > 1100 && matches!(k, Kind::Mad | Kind::Cci | Kind::Er) && !th {
                    continue;
                }
                jobs.push(Cfg::of(k, &[p, (p % 7) + 1, (p % 5) + 1], 2.0));
                if k.nperiods() >= 2 {
                    jobs.push(Cfg::of(k, &[(p % 5) + 1, p, p], 2.0));
                }
            }
        }
        let chunks: Vec<&[Cfg]> = jobs.chunks(8).collect();
        let outs = par_run(ctx, &chunks, |_, chunk| {
            let mut out = JobOut::default();
            for cfg in chunk.iter() {
                let n = cfg.max_period();
                let len = 2 * n + 3;
                let base: Vec<Op> = (0..len).map(|i| ordinary(cfg.kind, i)).collect();
                out.stats.states += 1;
                out.stats.traces += 1;
                out.stats.transitions += len as u64 + 4;
                out.stats.evaluations += 1;
                out.stats.nontrivial += 1;
                if let Err((step, phase)) = run_total(cfg, &base, None) {
                    report(cfg, &base, step, phase, &mut out, "default stream, every period".into());
                    return out;
                }
            }
            out
        });
        res.absorb(merge_jobs(outs));
    }
    // (d32) 2^32 + 2048 calls on one instance: a call counter in a 32-bit type overflows there (a panic in
    // builds with overflow checks, such as this harness's)
    if !res.out.failed() {
        // (thorough tier only: the quick tier of C01 and C17 already drives SD, SMA, MAX and MIN through 2^32 calls
        // with this build's overflow checks on)
        let mut hz: Vec<Cfg> = vec![];
        if th {
            hz.extend([Cfg::p1(Kind::Ema, 9), Cfg::p1(Kind::Sma, 10), Cfg::p1(Kind::Max, 14), Cfg::p1(Kind::Rsi, 14), Cfg::p1(Kind::Roc, 10), Cfg::p0(Kind::Tr), Cfg::p1(Kind::Min, 14), Cfg::p1(Kind::Wma, 9), Cfg::p1(Kind::Sd, 10), Cfg::pm(Kind::Bb, 20, 2.0), Cfg::p1(Kind::Atr, 14), Cfg::pm(Kind::Kc, 10, 2.0), Cfg::pm(Kind::Ce, 22, 3.0), Cfg::p1(Kind::FastStoch, 14), Cfg::p2(Kind::SlowStoch, 14, 3), Cfg::p3(Kind::Macd, 12, 26, 9), Cfg::p3(Kind::Ppo, 12, 26, 9), Cfg::p1(Kind::Mfi, 14), Cfg::p0(Kind::Obv)]);
        }
        let outs = par_run(ctx, &hz, |_, cfg| {
            let mut out = JobOut::default();
            out.stats.traces += 1;
            out.stats.states += 1;
            out.stats.evaluations += 1;
            out.stats.nontrivial += 1;
            out.stats.transitions += super::refcmp::CALLS_PAST_2_32;
            if let Err(done) = super::refcmp::run_past_2_32(cfg, ctx.seed ^ 0x3212) {
                out.fail(Violation::new(PROP, cfg, &[], "panic").obs(format!("panic in call number {} on one instance", done + 1)).exp("every call returns normally".into()).det("one instance fed an LCG-driven 64-level price grid; 2^32 = 4294967296".into()));
            }
            out
        });
        res.absorb(merge_jobs(outs));
    }
    // (c') medium periods, up to three deviations of tie-producing kinds at every set of positions
    // (props/devfam.rs): double / triple copies of the window extreme, one of them exactly one period after
    // another, dips right after peaks - the states of shortcuts that only exist for longer windows
    let mut devfam_seqs = 0u64;
    if !res.out.failed() {
        use super::devfam::*;
        let kinds: Vec<Kind> = ALL_KINDS.iter().copied().filter(|k| k.nperiods() >= 1).collect();
        let plan: Vec<(usize, usize, &[Dev])> = if th { vec![(9, 3, &DEVS_ALL[..]), (10, 3, &DEVS_ABS[..]), (14, 3, &DEVS_ABS[..]), (17, 3, &DEVS_ALL[..]), (20, 3, &DEVS_ABS[..]), (33, 2, &DEVS_ALL[..])] } else { vec![(9, 3, &DEVS_ABS[..]), (9, 2, &DEVS_ALL[..]), (17, 3, &DEVS_ABS[..]), (17, 2, &DEVS_ALL[..])] };
        let mut jobs: Vec<(Cfg, Base, usize, usize, &[Dev], bool)> = vec![];
        for &(n, k, devs) in &plan {
            for kind in &kinds {
                let cfg = Cfg::of(*kind, &[n, 3, 2], 2.0);
                for b in BASES {
                    if kind.has_scalar() {
                        jobs.push((cfg, b, n, k, devs, false));
                    }
                    if !kind.has_scalar() || kind.bar_native() {
                        jobs.push((cfg, b, n, k, devs, true));
                    }
                }
            }
        }
        let outs = par_run(ctx, &jobs, |_, (cfg, b, n, k, devs, bars)| {
            let mut out = JobOut::default();
            let len = 3 * n + 3;
            for first in 0..len {
                if ctx.out_of_time() {
                    out.stats.capped.push(format!("time cap in deviation families of {}", cfg.descr()));
                    break;
                }
                for kk in 1..=*k {
                    let go = for_each_from(first, len, kk, devs, &mut |set| {
                        let v = build(*b, *n, len, set);
                        out.stats.traces += 1;
                        out.stats.states += 1;
                        out.stats.evaluations += 1;
                        out.stats.nontrivial += 1;
                        out.stats.transitions += len as u64;
                        let mut step = 0usize;
                        let r = std::panic::catch_unwind(std::panic::AssertUnwindSafe(|| {
                            let mut s = make(cfg);
                            for x in &v {
                                let op = if *bars { Op::B(bar_of(*x)) } else { Op::S(*x) };
                                s.apply(&op);
                                step += 1;
                            }
                        }));
                        if r.is_err() {
                            let ops = to_ops(&v, *bars);
                            report(cfg, &ops, step, "next/reset", &mut out, format!("{:?} base with deviations {:?}", b, set));
                            return false;
                        }
                        true
                    });
                    if !go {
                        return out;
                    }
                }
            }
            out
        });
        let m = merge_jobs(outs);
        devfam_seqs = m.stats.traces;
        res.absorb(m);
    }
    res.extra.insert("deviation_family_sequences".into(), json!(devfam_seqs));
    // (d) arbitrarily many calls: long runs past hundreds of thousands of wrap-arounds
    // (narrow wrap / call counters overflow only after 2^8 or 2^16 wraps)
    if !res.out.failed() {
        let mut jobs: Vec<(Cfg, usize)> = vec![];
        for k in ALL_KINDS {
            let ps: Vec<usize> = if k.nperiods() == 0 { vec![1] } else { (1..=64).collect() };
            for p in ps {
                let calls = if p <= 8 { if th { 1_200_000 } else { 300_000 } } else if th { 300_000 } else { 70_000 };
                let linear = matches!(k, Kind::Mad | Kind::Cci | Kind::Er);
                jobs.push((Cfg::of(k, &[p, (p % 3) + 1, (p % 4) + 1], 2.0), if linear && p > 16 { calls / 4 } else { calls }));
            }
        }
        // very large periods: window-length arithmetic in narrow integer types overflows only beyond 2^16
        for k in ALL_KINDS {
            if k.nperiods() == 0 {
                continue;
            }
            let linear = matches!(k, Kind::Mad | Kind::Cci | Kind::Er);
            let big: Vec<usize> = if th { vec![65_535, 65_536, 65_537, 100_000, 1 << 20] } else { vec![65_536, 100_000] };
            for p in big {
                if linear && (!th || p > 70_000) {
                    continue; // O(n) per step: 65 536^2 steps only in the thorough tier
                }
                jobs.push((Cfg::of(k, &[p, 3, 2], 2.0), p + p / 8 + 7));
                if k.nperiods() >= 2 {
                    jobs.push((Cfg::of(k, &[3, p, p], 2.0), p + p / 8 + 7));
                }
            }
        }
        jobs.sort_by_key(|j| std::cmp::Reverse(j.1 * if matches!(j.0.kind, Kind::Mad | Kind::Cci | Kind::Er) { j.0.p[0] } else { 1 }));
        let outs = par_run(ctx, &jobs, |_, (cfg, calls)| {
            let mut out = JobOut::default();
            let mut step = 0usize;
            let r = std::panic::catch_unwind(std::panic::AssertUnwindSafe(|| {
                let mut s = make(cfg);
                for i in 0..*calls {
                    s.apply(&ordinary(cfg.kind, i));
                    step += 1;
                }
                let _ = s.disp();
                let _ = s.dbg();
                let c = s.dup();
                drop(c);
                s.ser().is_ok()
            }));
            out.stats.states += 1;
            out.stats.traces += 1;
            out.stats.transitions += step as u64;
            out.stats.evaluations += 1;
            out.stats.nontrivial += 1;
            match r {
                Ok(true) => {}
                _ => {
                    // the history is too long to list: record its generator and the failing call
                    let ops: Vec<Op> = (step.saturating_sub(3)..=step).map(|i| ordinary(cfg.kind, i)).collect();
                    out.fail(
                        Violation::new(PROP, cfg, &ops, "panic")
                            .obs(format!("panic / failure at call {} of a long run", step + 1))
                            .exp("every call returns normally".into())
                            .det(format!("long run of ordinary inputs (generator ordinary(kind, i), i = 0..{}); ops shown = the last 4 inputs before the failure", calls))
                            .with("generator", format!("ordinary({}, i) for i in 0..{}; failing call {}", cfg.kind.name(), calls, step + 1)),
                    );
                }
            }
            out
        });
        res.extra.insert("long_runs".into(), json!(jobs.len()));
        res.absorb(merge_jobs(outs));
    }
    res.extra.insert("cursor_states".into(), json!(cursor_rows));
    res.rule = "case = (configuration, history mixing ordinary values with NaN, +-inf, +-f64::MAX, subnormals, -0.0, inconsistent bars and resets); every next()/reset() and, in the final state, Display, Debug, clone, clone_from (between different parameters) and bincode serialization must return normally under catch_unwind with overflow checks and debug assertions on; non-trivial = history longer than the period".into();
    res.bounds = format!("(a) all sequences over {{1.0, 7 special values / 9 special bars, reset}} up to depth {depth}, all 22 indicators, periods 1..4 and multipliers {{2,0,-1,NaN,1e300,inf}}; (b) every period 1..64: default stream of 3n+3 inputs, every prefix length, every special value / reset at every position{}; (c) periods 100, 257, 1000, 4096 with strided positions; (d) one long run of ordinary inputs per indicator and period 1..64: 3e5 (1.2e6) calls for periods <= 8, 7e4 (3e5) above - past 2^16 wrap-arounds for small periods; periods 65536 and 100000 (thorough: 65535..2^20) run past their first wrap-around", if th { ", every pair of positions for n<=16" } else { "" });
    res.assumptions = vec![
        "built with overflow-checks = true and debug-assertions = true (profile of /verif/mc)".into(),
        "counters wider than 16 bits that overflow only after more than ~10^6 calls are out of reach of stage (d)".into(),
    ];
    res
}
