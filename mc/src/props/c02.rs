//! C02 - EMA recursion and everything wired from it follow the documented definition.

use super::refcmp::*;
use crate::alpha::*;
use crate::engine::*;
use crate::report::CheckResult;
use crate::subjects::{Cfg, Kind};
use crate::types::*;
use serde_json::json;

pub const PROP: &str = "C02";

pub fn run(ctx: &Ctx) -> CheckResult {
    let mut res = CheckResult::new(PROP, "model_checking");
    let th = ctx.tier_thorough;
    let (d, db) = if th { (9, 7) } else { (7, 5) };
    let mut scal: Vec<f64> = S_INT.to_vec();
    scal.extend([7.7, 1e6]);
    let scal_ops = s_ops(&scal);
    let bar_ops = b_ops(&b_grid());
    let singles = [1usize, 2, 3, 5, 14, 1024];
    let mults: Vec<f64> = if th { vec![2.0, 0.0, 0.5, 3.0, 2.618, 0.1, -1.0, 1e6] } else { vec![2.0, 0.0, 0.5, 3.0, 2.618, 0.1] };
    let mut spaces = vec![];
    // TrueRange has no parameter
    spaces.push(Space { cfg: Cfg::p0(Kind::Tr), alphabet: with_reset(scal_ops.clone()), depth: d, label: "scalar" });
    spaces.push(Space { cfg: Cfg::p0(Kind::Tr), alphabet: with_reset(bar_ops.clone()), depth: db, label: "bars" });
    for &n in &singles {
        spaces.push(Space { cfg: Cfg::p1(Kind::Ema, n), alphabet: with_reset(scal_ops.clone()), depth: d, label: "scalar" });
        spaces.push(Space { cfg: Cfg::p1(Kind::Atr, n), alphabet: with_reset(scal_ops.clone()), depth: d, label: "scalar" });
        spaces.push(Space { cfg: Cfg::p1(Kind::Atr, n), alphabet: with_reset(bar_ops.clone()), depth: db, label: "bars" });
        for (i, &m) in mults.iter().enumerate() {
            let shallow = i > 0;
            spaces.push(Space { cfg: Cfg::pm(Kind::Kc, n, m), alphabet: with_reset(scal_ops.clone()), depth: if shallow { d - 2 } else { d }, label: "scalar" });
            spaces.push(Space { cfg: Cfg::pm(Kind::Kc, n, m), alphabet: with_reset(bar_ops.clone()), depth: if shallow { db - 1 } else { db }, label: "bars" });
            spaces.push(Space { cfg: Cfg::pm(Kind::Ce, n, m), alphabet: with_reset(bar_ops.clone()), depth: if shallow { db - 1 } else { db }, label: "bars" });
        }
    }
    // the same in a tiny price unit (2^-60): an absolute epsilon / "converged" shortcut shows only here
    let tiny_s = with_reset(s_ops(&S_TINY));
    let tiny_b = with_reset(b_ops(&scale_bars(&b_grid(), TINY)));
    spaces.push(Space { cfg: Cfg::p0(Kind::Tr), alphabet: tiny_s.clone(), depth: d, label: "tiny scalar" });
    spaces.push(Space { cfg: Cfg::p0(Kind::Tr), alphabet: tiny_b.clone(), depth: db - 1, label: "tiny bars" });
    for &n in &[1usize, 2, 3, 5, 14] {
        spaces.push(Space { cfg: Cfg::p1(Kind::Ema, n), alphabet: tiny_s.clone(), depth: d + 1, label: "tiny scalar" });
        spaces.push(Space { cfg: Cfg::p1(Kind::Atr, n), alphabet: tiny_s.clone(), depth: d, label: "tiny scalar" });
        spaces.push(Space { cfg: Cfg::p1(Kind::Atr, n), alphabet: tiny_b.clone(), depth: db - 1, label: "tiny bars" });
        spaces.push(Space { cfg: Cfg::pm(Kind::Kc, n, 2.0), alphabet: tiny_s.clone(), depth: d, label: "tiny scalar" });
        spaces.push(Space { cfg: Cfg::pm(Kind::Kc, n, 2.0), alphabet: tiny_b.clone(), depth: db - 1, label: "tiny bars" });
        spaces.push(Space { cfg: Cfg::pm(Kind::Ce, n, 3.0), alphabet: tiny_b.clone(), depth: db - 1, label: "tiny bars" });
        spaces.push(Space { cfg: Cfg::p3(Kind::Macd, n, n + 2, 2), alphabet: tiny_s.clone(), depth: d, label: "tiny scalar" });
    }
    // scalar and bar inputs mixed on the SAME instance (the API allows switching mid-stream)
    let mixed: Vec<Op> = vec![Op::S(1.0), Op::B(Bar::hlc(2.0, 1.0, 2.0)), Op::S(4.0), Op::B(Bar::hlc(4.0, 1.0, 1.0)), Op::S(2.0), Op::B(Bar::hlc(4.0, 2.0, 4.0)), Op::Reset];
    spaces.push(Space { cfg: Cfg::p0(Kind::Tr), alphabet: mixed.clone(), depth: d, label: "mixed scalar/bar" });
    for &n in &[1usize, 2, 3, 5] {
        spaces.push(Space { cfg: Cfg::p1(Kind::Atr, n), alphabet: mixed.clone(), depth: d - 1, label: "mixed scalar/bar" });
        spaces.push(Space { cfg: Cfg::pm(Kind::Kc, n, 2.0), alphabet: mixed.clone(), depth: d - 1, label: "mixed scalar/bar" });
        spaces.push(Space { cfg: Cfg::p1(Kind::Ema, n), alphabet: mixed.clone(), depth: d - 1, label: "mixed scalar/bar" });
        spaces.push(Space { cfg: Cfg::p3(Kind::Macd, n, n + 2, 2), alphabet: mixed.clone(), depth: d - 2, label: "mixed scalar/bar" });
    }
    // periods at and beyond 2^32 (legal and cheap: no window is allocated)
    for &n in &[(1usize << 32) - 1, 1usize << 32, (1usize << 32) + 2, (1usize << 33) + 9, usize::MAX] {
        spaces.push(Space { cfg: Cfg::p1(Kind::Ema, n), alphabet: scal_ops.clone(), depth: d - 3, label: "huge period" });
        spaces.push(Space { cfg: Cfg::p1(Kind::Atr, n), alphabet: scal_ops.clone(), depth: d - 3, label: "huge period" });
        spaces.push(Space { cfg: Cfg::pm(Kind::Kc, n, 2.0), alphabet: bar_ops.clone(), depth: db - 2, label: "huge period" });
        spaces.push(Space { cfg: Cfg::p3(Kind::Macd, 3, n, 2), alphabet: scal_ops.clone(), depth: d - 3, label: "huge period" });
        spaces.push(Space { cfg: Cfg::p3(Kind::Macd, n, 5, n), alphabet: scal_ops.clone(), depth: d - 3, label: "huge period" });
    }
    // negative multiplier (accepted as given): upper/lower swap sides
    for &n in &[1usize, 3] {
        spaces.push(Space { cfg: Cfg::pm(Kind::Kc, n, -1.0), alphabet: with_reset(scal_ops.clone()), depth: d - 2, label: "scalar" });
        spaces.push(Space { cfg: Cfg::pm(Kind::Kc, n, -1.0), alphabet: with_reset(bar_ops.clone()), depth: db - 1, label: "bars" });
        spaces.push(Space { cfg: Cfg::pm(Kind::Ce, n, -2.5), alphabet: with_reset(bar_ops.clone()), depth: db - 1, label: "bars" });
    }
    // MACD triples over {1,2,3,7}^3 (equal periods and fast > slow included)
    let tri = [1usize, 2, 3, 7];
    for &a in &tri {
        for &b in &tri {
            for &c in &tri {
                spaces.push(Space { cfg: Cfg::p3(Kind::Macd, a, b, c), alphabet: scal_ops.clone(), depth: if th { d - 2 } else { d - 2 }, label: "scalar" });
            }
        }
    }
    spaces.push(Space { cfg: Cfg::p3(Kind::Macd, 12, 26, 9), alphabet: with_reset(scal_ops.clone()), depth: d, label: "scalar" });
    spaces.push(Space { cfg: Cfg::p3(Kind::Macd, 3, 1024, 2), alphabet: scal_ops.clone(), depth: d - 1, label: "scalar" });
    let o = run_spaces(ctx, PROP, &spaces);
    res.absorb(o);

    // TrueRange branch coverage measured on the reference side (vacuity guard)
    let mut branch = [0u64; 4]; // first, high-low, gap-up (|h-pc|), gap-down (|l-pc|)
    let grid = b_grid();
    for a in &grid {
        for b in &grid {
            let hl = b.h - b.l;
            let up = (b.h - a.c).abs();
            let dn = (b.l - a.c).abs();
            if hl >= up && hl >= dn {
                branch[1] += 1;
            }
            if up > hl && up >= dn {
                branch[2] += 1;
            }
            if dn > hl && dn >= up {
                branch[3] += 1;
            }
        }
    }
    branch[0] = grid.len() as u64;
    res.require(branch.iter().all(|c| *c > 0), "B_grid does not exercise every TrueRange branch");
    res.extra.insert("true_range_branch_pairs".into(), json!({"first": branch[0], "high-low": branch[1], "gap-up": branch[2], "gap-down": branch[3]}));

    let lens = if th { 4000 } else { 600 };
    // long recursions (deviation-free default streams, k<=1 deviations) for big periods
    if !res.out.failed() {
        let mut fams = vec![];
        for &n in &[1usize, 2, 9, 14, 200, 1024] {
            for cfg in [Cfg::p1(Kind::Ema, n), Cfg::p1(Kind::Atr, n), Cfg::pm(Kind::Kc, n, 2.0), Cfg::p3(Kind::Macd, n, 2 * n + 1, 9)] {
                for (name, base) in base_patterns_scalar(lens) {
                    fams.push(Family { cfg, base: base.clone(), base_name: name, deviations: vec![], check_at: (1..=lens).filter(|s| s % 13 == 0 || *s <= 5 || *s == lens).collect() });
                    for p in [0usize, 1, 2, lens / 2] {
                        fams.push(Family { cfg, base: base.clone(), base_name: name, deviations: vec![(p, Op::S(-1e6))], check_at: vec![p + 1, p + 2, p + 3, p + 50, lens] });
                    }
                }
            }
            for cfg in [Cfg::p1(Kind::Atr, n), Cfg::pm(Kind::Kc, n, 2.0), Cfg::pm(Kind::Ce, n, 3.0)] {
                for (name, base) in base_patterns_bars(lens) {
                    fams.push(Family { cfg, base: base.clone(), base_name: name, deviations: vec![], check_at: (1..=lens).filter(|s| s % 13 == 0 || *s <= 5 || *s == lens || (n > 1 && s % n <= 1)).collect() });
                }
            }
        }
        // medium periods on tick-grid walks (ties, plateaus, double tops at every phase of the ring)
        {
            let ns: Vec<usize> = (6..=40usize).filter(|n| th || n % 3 == 0 || *n == 7 || *n == 10 || *n == 14 || *n == 20).collect();
            let tl = if th { 6000 } else { 1200 };
            let mut cb = vec![];
            let mut cs = vec![];
            for &n in &ns {
                cb.push(Cfg::pm(Kind::Ce, n, 3.0));
                cb.push(Cfg::pm(Kind::Kc, n, 2.0));
                cb.push(Cfg::p1(Kind::Atr, n));
                cs.push(Cfg::p1(Kind::Ema, n));
                cs.push(Cfg::p3(Kind::Macd, n, 2 * n + 1, 9));
                cs.push(Cfg::pm(Kind::Kc, n, -1.5));
            }
            cb.push(Cfg::p0(Kind::Tr));
            fams.extend(tick_walk_families(&cb, tl, ctx.seed, true, false));
            fams.extend(tick_walk_families(&cs, tl, ctx.seed, false, false));
        }
        let chunks: Vec<&[Family]> = fams.chunks(8).collect();
        let outs = par_run(ctx, &chunks, |_, chunk| {
            let mut out = JobOut::default();
            for f in chunk.iter() {
                run_family(PROP, f, &mut out);
                if out.failed() {
                    break;
                }
            }
            out
        });
        res.extra.insert("long_recursion_runs".into(), json!(fams.len()));
        res.absorb(merge_jobs(outs));
    }

    // very long recursions: incremental double-double reference, all orderings of two regime segments
    if !res.out.failed() {
        use crate::regimes::{orderings, Regime};
        let ords = orderings(&[Regime::Walk, Regime::Saw, Regime::Extremes, Regime::Stair, Regime::Spikes], 2);
        let seglen = if th { 500_000 } else { 25_000 };
        let mut jobs: Vec<(Cfg, Vec<Regime>, f64, bool)> = vec![];
        for &n in &[1usize, 2, 9, 14, 200] {
            for (oi, ord) in ords.iter().enumerate() {
                for &m in &[0.7, 1.1e6] {
                    if !th && (oi + n) % 3 != 0 {
                        continue;
                    }
                    jobs.push((Cfg::p1(Kind::Ema, n), ord.clone(), m, false));
                    jobs.push((Cfg::p1(Kind::Atr, n), ord.clone(), m, true));
                    jobs.push((Cfg::p1(Kind::Atr, n), ord.clone(), m, false));
                    jobs.push((Cfg::p3(Kind::Macd, n, 2 * n + 1, 9), ord.clone(), m, false));
                    jobs.push((Cfg::pm(Kind::Kc, n, 2.0), ord.clone(), m, true));
                    jobs.push((Cfg::pm(Kind::Kc, n, 2.0), ord.clone(), m, false));
                    jobs.push((Cfg::pm(Kind::Ce, n, 3.0), ord.clone(), m, true));
                    if n == 1 {
                        jobs.push((Cfg::p0(Kind::Tr), ord.clone(), m, true));
                    }
                }
            }
        }
        res.extra.insert("very_long_runs".into(), json!(jobs.len()));
        let outs = par_run(ctx, &jobs, |_, (cfg, ord, m, bars)| {
            let mut out = JobOut::default();
            let e = if ctx.out_of_time() { out.stats.capped.push("time cap in very long runs".into()); Ok(()) } else { long_run_incref(PROP, cfg, ord, seglen, *m, *bars, ctx.seed, 97, &mut out) };
            (out, e.err())
        });
        for (o, e) in outs {
            if let Some(e) = e {
                res.machinery_errors.push(e);
            }
            res.absorb(o);
        }
    }
    // 2^32 + 16 calls on ONE EMA instance (a call counter in a 32-bit type wraps there): alternating +1 / -1,
    // every single step checked against alpha*x + (1-alpha)*(the real previous output).  A step that deviates
    // by more than 2*tau(t)*M from that has left the statement's band around the exact recursion at this step
    // or the one before (|err_t| >= delta - (1-alpha)|err_{t-1}|).
    let mut wrap_steps = 0u64;
    if !res.out.failed() {
        use ta::Next;
        let periods: Vec<usize> = if th { vec![20, 200, 3] } else { vec![20] };
        let outs = par_run(ctx, &periods, |_, &n| {
            let mut out = JobOut::default();
            let cfg = Cfg::p1(Kind::Ema, n);
            let total: u64 = (1u64 << 32) + 16;
            let r = std::panic::catch_unwind(|| {
                let mut e = ta::indicators::ExponentialMovingAverage::new(n).unwrap();
                let a = 2.0 / (n as f64 + 1.0);
                let mut prev = 0.0f64;
                let mut bad: Option<(u64, f64, f64, f64)> = None;
                for t in 0..total {
                    let x = if t & 1 == 0 { 1.0 } else { -1.0 };
                    let o = e.next(x);
                    let want = if t == 0 { x } else { a * x + (1.0 - a) * prev };
                    let tf = (t + 1) as f64;
                    let tol = 2.0 * (1e-12 + 1e-15 * tf * tf.sqrt());
                    if !((o - want).abs() <= tol) {
                        bad = Some((t, o, want, prev));
                        break;
                    }
                    prev = o;
                }
                bad
            });
            out.stats.traces += 1;
            out.stats.transitions += total;
            out.stats.states += total;
            out.stats.evaluations += total;
            out.stats.nontrivial += total;
            match r {
                Ok(None) => {}
                Ok(Some((t, o, want, prev))) => {
                    let x = if t & 1 == 0 { 1.0 } else { -1.0 };
                    out.fail(
                        Violation::new(PROP, &cfg, &[Op::S(prev), Op::S(x)], "recursion-step")
                            .obs(format!("[{}]", f2s(o)))
                            .exp(format!("[{}]", f2s(want)))
                            .det(format!("call number {} (1-based) of one instance fed +1, -1, +1, ...: the output is not alpha*x + (1-alpha)*previous output ({}); ops shown = previous output and this input", t + 1, f2s(prev)))
                            .with("generator", format!("alternating +1/-1, failing call {}", t + 1)),
                    );
                }
                Err(_) => out.fail(Violation::new(PROP, &cfg, &[], "panic").obs("panic".into()).exp("outputs".into())),
            }
            out
        });
        let m = merge_jobs(outs);
        wrap_steps = m.stats.transitions;
        res.absorb(m);
    }
    res.extra.insert("ema_single_instance_calls_checked_stepwise".into(), json!(wrap_steps));
    // Default::default() instances against the reference for the parameters they report
    if !res.out.failed() {
        let mut o = JobOut::default();
        default_instances(PROP, &[Kind::Ema, Kind::Tr, Kind::Atr, Kind::Macd, Kind::Kc, Kind::Ce], &mut o);
        res.absorb(o);
    }
    // unvalidated bars (custom High/Low/Close types skip DataItem's checks): inverted
    // high < low, zero and negative fields - the documented formulas are total
    if !res.out.failed() {
        let free = with_reset(b_ops(&b_free()));
        let dfree = if th { 5 } else { 4 };
        let mut spaces = vec![Space { cfg: Cfg::p0(Kind::Tr), alphabet: free.clone(), depth: dfree, label: "free bars" }];
        for &n in &[1usize, 2, 3, 5] {
            spaces.push(Space { cfg: Cfg::p1(Kind::Atr, n), alphabet: free.clone(), depth: dfree, label: "free bars" });
            spaces.push(Space { cfg: Cfg::pm(Kind::Kc, n, 2.0), alphabet: free.clone(), depth: dfree, label: "free bars" });
            spaces.push(Space { cfg: Cfg::pm(Kind::Ce, n, 3.0), alphabet: free.clone(), depth: dfree, label: "free bars" });
        }
        res.absorb(run_spaces(ctx, PROP, &spaces));
    }
    // LAST (listed findings must not switch off the stages above): prices just below
    // f64::MAX, compared after exact scaling by 2^-600 (see refcmp::oracle_node_scaled).
    // KeltnerChannel's typical price (h+l+c)/3 overflows on such bars (listed finding);
    // everything else is exact there today.
    if !res.out.failed() {
        let near_s = with_reset(s_ops(&S_NEARMAX));
        let near_b = with_reset(b_ops(&b_nearmax()));
        let dn = if th { 8 } else { 6 };
        let mut spaces = vec![
            Space { cfg: Cfg::p0(Kind::Tr), alphabet: near_s.clone(), depth: dn, label: "near-max scalar" },
            Space { cfg: Cfg::p0(Kind::Tr), alphabet: near_b.clone(), depth: dn, label: "near-max bars" },
        ];
        for &n in &[1usize, 2, 3, 5, 14] {
            spaces.push(Space { cfg: Cfg::p1(Kind::Ema, n), alphabet: near_s.clone(), depth: dn, label: "near-max scalar" });
            spaces.push(Space { cfg: Cfg::p1(Kind::Atr, n), alphabet: near_s.clone(), depth: dn, label: "near-max scalar" });
            spaces.push(Space { cfg: Cfg::p1(Kind::Atr, n), alphabet: near_b.clone(), depth: dn, label: "near-max bars" });
            spaces.push(Space { cfg: Cfg::pm(Kind::Kc, n, 0.5), alphabet: near_s.clone(), depth: dn, label: "near-max scalar" });
            spaces.push(Space { cfg: Cfg::pm(Kind::Ce, n, 0.5), alphabet: near_b.clone(), depth: dn, label: "near-max bars" });
            spaces.push(Space { cfg: Cfg::p3(Kind::Macd, n, n + 2, 2), alphabet: near_s.clone(), depth: dn, label: "near-max scalar" });
            spaces.push(Space { cfg: Cfg::pm(Kind::Kc, n, 0.5), alphabet: near_b.clone(), depth: dn - 1, label: "near-max bars" });
        }
        res.absorb(run_spaces(ctx, PROP, &spaces));
    }
    res.rule = "case = (configuration, operation history) replayed on a fresh real instance; output of the last op compared with the documented recursion/formula evaluated from scratch over the whole history since reset in double-double; non-trivial = history of at least 2 inputs since reset".into();
    res.bounds = format!("seq(S_int+{{7.7,1e6}}+reset, {d}) scalar paths and seq(B_grid+reset, {db}) bar paths for periods {singles:?}, multipliers {mults:?} (side multipliers 1-2 levels shallower), the positive alphabets in a 2^-60 price unit for periods {{1,2,3,5,14}}; streams mixing scalar and bar inputs on one instance for TR/ATR/KC/EMA/MACD; periods 2^32-1, 2^32, 2^32+2, 2^33+9, usize::MAX for EMA/ATR/KC/MACD; multipliers -1 / -2.5 for KC / CE; MACD triples over {{1,2,3,7}}^3 at depth {} plus (12,26,9),(3,1024,2); default streams of {lens} steps with <=1 deviation for periods up to 1024; very long runs (2 x 25k / 2 x 500k steps, all orderings of 2 of 5 regimes, thinned in quick) against an incremental double-double recursion for periods {{1,2,9,14,200}}", d - 2);
    res.assumptions = vec![
        "EMA state space is unbounded: depth-bounded, plus fixed long default streams".into(),
        "bar alphabets contain valid bars only (low<=close<=high): the statement's formulas are the documented ones for real bars".into(),
    ];
    res
}
