//! C13 - incremental accumulators do not drift from recomputation over long streams.

use crate::engine::*;
use crate::oracle::{compare_with, Verdict};
use crate::refm::reference;
use crate::regimes::*;
use crate::report::CheckResult;
use crate::subjects::{make, Cfg, Kind};
use crate::types::*;
use serde_json::json;
use std::collections::VecDeque;

pub const PROP: &str = "C13";

pub struct LongRun {
    pub cfg: Cfg,
    pub regimes: Vec<Regime>,
    pub seglen: usize,
    pub m: f64,
    /// feed bars even to indicators that have a scalar path (their bar path reads close / low / high)
    pub force_bars: bool,
}

impl LongRun {
    pub fn descr(&self) -> String {
        format!("{}{} regimes={:?} seglen={} m={}", self.cfg.descr(), if self.force_bars { " (fed bars)" } else { "" }, self.regimes.iter().map(|r| r.name()).collect::<Vec<_>>(), self.seglen, self.m)
    }
}

/// Execute one long run on the real indicator, checking against recomputation
/// from the harness's own copy of the window at every `stride`-th step, around
/// segment boundaries and at the end.
pub fn long_run(prop: &str, run: &LongRun, seed: u64, stride: usize, out: &mut JobOut) {
    let cfg = run.cfg;
    let bars = run.force_bars || !cfg.kind.has_scalar();
    let w = cfg.kind.window(&cfg).expect("windowed subject");
    let total = run.regimes.len() * run.seglen;
    let volumes = [1.0, 3.0, 0.0, 0.5, 2.0, 0.0, 7.0];
    let mut g = Gen::new(run.m, seed);
    let mut win: VecDeque<Op> = VecDeque::with_capacity(w + 1);
    let mut mmax = 0.0f64;
    let mut maxflow = 0.0f64;
    let mut prev_tp = f64::NAN;
    out.stats.traces += 1;
    let res = std::panic::catch_unwind(std::panic::AssertUnwindSafe(|| {
        let mut s = make(&cfg);
        let mut t = 0usize;
        let mut fails: Option<(usize, Out, String, String, String)> = None;
        let mut stats = (0u64, 0u64, 0.0f64, String::new()); // evaluations, skipped, worst, at
        'outer: for (si, r) in run.regimes.iter().enumerate() {
            for i in 0..run.seglen {
                let op = if bars { Op::B(g.bar(*r, i, &volumes)) } else { Op::S(g.price(*r, i)) };
                t += 1;
                mmax = mmax.max(op.maxmag());
                if let Op::B(b) = &op {
                    let tp = b.tp();
                    if t > 1 && tp != prev_tp {
                        maxflow = maxflow.max((tp * b.v).abs());
                    }
                    prev_tp = tp;
                }
                let o = s.apply(&op);
                win.push_back(op);
                if win.len() > w {
                    win.pop_front();
                }
                let near_boundary = i < 3 || i + 3 >= run.seglen;
                let _ = si;
                // (every step of the warm-up for ordinary windows; for very large ones only around the point where the window fills)
                if !(t % stride == 0 || near_boundary || t == total || (w <= 2000 && t <= w + 2) || (w > 2000 && t + 2 >= w && t <= w + 2)) {
                    continue;
                }
                // from-scratch evaluation of the harness's own window copy
                let hist: Vec<Op> = win.iter().copied().collect();
                let mut r = reference(&cfg, &hist);
                r.m = mmax;
                match cfg.kind {
                    Kind::Cci => {
                        if r.den.is_finite() && r.den != 0.0 {
                            r.cond = mmax / r.den;
                        }
                    }
                    Kind::Mfi => {
                        if t == 1 {
                            continue;
                        }
                        if hist.len() == 1 {
                            continue;
                        }
                        if r.den.is_finite() && r.den != 0.0 {
                            r.cond = maxflow.max(r.maxflow) / r.den.abs();
                        }
                    }
                    _ => {}
                }
                match compare_with(&cfg, t, &r, &o) {
                    Verdict::Ok(wr) => {
                        stats.0 += 1;
                        if wr > stats.2 {
                            stats.2 = wr;
                            stats.3 = format!("t={}", t);
                        }
                    }
                    Verdict::Skip(_) => stats.1 += 1,
                    Verdict::Fail { obs, exp, detail } => {
                        fails = Some((t, o, obs, exp, detail));
                        break 'outer;
                    }
                }
                // the variance never becomes negative or NaN
                if matches!(cfg.kind, Kind::Sd) && !(o.v[0] >= 0.0) {
                    fails = Some((t, o, out2s(&o), ">= 0".into(), "variance negative or NaN".into()));
                    break 'outer;
                }
            }
        }
        (t, fails, stats)
    }));
    match res {
        Ok((t, fails, stats)) => {
            out.stats.states += stats.0 + stats.1;
            out.stats.transitions += t as u64;
            out.stats.evaluations += stats.0;
            out.stats.nontrivial += stats.0;
            out.stats.skipped += stats.1;
            let d = run.descr();
            out.stats.ratio(stats.2, 1.0, || format!("{} {}", d, stats.3));
            if let Some((t, _o, obs, exp, detail)) = fails {
                // the replay artefact carries the generator parameters instead of 10^5 literal inputs
                let hist: Vec<Op> = win.iter().copied().collect();
                out.fail(
                    Violation::new(prop, &cfg, &hist, "drift-vs-recompute")
                        .obs(obs)
                        .exp(exp)
                        .det(format!("{} at t={} of a generated stream ({}); ops shown = the harness's copy of the current window", detail, t, run.descr()))
                        .with("generator", format!("regimes={:?} seglen={} m={} seed={} failing_t={}", run.regimes.iter().map(|r| r.name()).collect::<Vec<_>>(), run.seglen, run.m, seed, t)),
                );
            }
        }
        Err(_) => out.fail(Violation::new(prop, &cfg, &[], "panic").obs("panic".into()).exp("outputs".into()).det(run.descr())),
    }
}

pub fn subjects(n: usize) -> Vec<Cfg> {
    vec![
        Cfg::p1(Kind::Sma, n),
        Cfg::p1(Kind::Wma, n),
        Cfg::p1(Kind::Sd, n),
        Cfg::pm(Kind::Bb, n, 2.0),
        Cfg::p1(Kind::Mad, n),
        Cfg::p1(Kind::Cci, n),
        Cfg::p1(Kind::Mfi, n),
        Cfg::p1(Kind::Min, n),
        Cfg::p1(Kind::Max, n),
    ]
}

pub fn run(ctx: &Ctx) -> CheckResult {
    let mut res = CheckResult::new(PROP, "exploration");
    let th = ctx.tier_thorough;
    let set = [Regime::Extremes, Regime::Saw, Regime::Walk, Regime::Plateau, Regime::Spikes, Regime::Stair, Regime::ShortSaw, Regime::Tri4, Regime::Quiet];
    let (k, total, periods, bases): (usize, usize, Vec<usize>, Vec<f64>) = if th {
        (3, 2_000_000, vec![1, 2, 3, 5, 14, 50, 200, 1000], vec![1e-3, 0.7, 1.0, 1.1e6, 3e-7])
    } else {
        (2, 100_000, vec![1, 2, 4, 5, 14], vec![0.7, 1.1e6, 3e-7])
    };
    let ords = orderings(&set, k);
    let mut runs: Vec<LongRun> = vec![];
    for &n in &periods {
        for &m in &bases {
            for (oi, ord) in ords.iter().enumerate() {
                for cfg in subjects(n) {
                    let linear = matches!(cfg.kind, Kind::Mad | Kind::Cci);
                    // O(n)-per-step subjects: shorter runs for large periods, and a subset of orderings
                    let mut tot = total;
                    if linear && n >= 50 {
                        if th && n > 200 {
                            continue;
                        }
                        tot = total / (n / 10);
                        if oi % 5 != 0 {
                            continue;
                        }
                    }
                    if th && oi % 5 != 0 && !(n <= 5 || n == 14) {
                        // full 125 orderings for small periods; every 5th for the others
                        continue;
                    }
                    runs.push(LongRun { cfg, regimes: ord.clone(), seglen: tot / k, m, force_bars: false });
                    // the bar path of the close-/low-/high-reading indicators on every 4th ordering
                    if oi % 4 == 1 && cfg.kind.has_scalar() && n <= 14 {
                        runs.push(LongRun { cfg, regimes: ord.clone(), seglen: tot / k, m, force_bars: true });
                    }
                }
            }
        }
    }
    // single-regime runs (drift that needs one regime to persist): periods 2 and 3, O(1)-per-step subjects
    for &n in &[2usize, 3] {
        for &m in &[1.0, 0.7, 1.1e6] {
            for r in set.iter() {
                for cfg in subjects(n) {
                    if matches!(cfg.kind, Kind::Mad | Kind::Cci) {
                        continue;
                    }
                    runs.push(LongRun { cfg, regimes: vec![*r], seglen: if th { 2_000_000 } else { 250_000 }, m, force_bars: false });
                }
            }
        }
    }
    // one window beyond 2^16 values (a counter or a product of counters in a 32-bit type): O(1)-per-step subjects
    for cfg in subjects(70_000) {
        if matches!(cfg.kind, Kind::Mad | Kind::Cci) {
            continue;
        }
        runs.push(LongRun { cfg, regimes: vec![Regime::Walk, Regime::Saw], seglen: if th { 150_000 } else { 75_000 }, m: 0.7, force_bars: false });
    }
    // past 2^21 (thorough: 2^22) calls on one instance: periodic maintenance code ("rebuild every 2^20 updates")
    // runs for the first time there
    for &n in &[3usize, 14] {
        for cfg in subjects(n) {
            runs.push(LongRun { cfg, regimes: vec![Regime::Walk, Regime::Saw], seglen: if th { 2_100_000 } else { 1_050_000 }, m: 0.7, force_bars: false });
        }
    }
    runs.sort_by_key(|r| std::cmp::Reverse(r.seglen * if matches!(r.cfg.kind, Kind::Mad | Kind::Cci) { r.cfg.p[0] } else { 1 }));
    res.extra.insert("long_runs".into(), json!(runs.len()));
    let chunks: Vec<&[LongRun]> = runs.chunks(if th { 2 } else { 4 }).collect();
    let outs = par_run(ctx, &chunks, |_, chunk| {
        let mut out = JobOut::default();
        for r in chunk.iter() {
            if ctx.out_of_time() {
                out.stats.capped.push("time cap in long runs".into());
                break;
            }
            long_run(PROP, r, ctx.seed, 997, &mut out);
            if out.failed() {
                break;
            }
            out.stats.sample(|| r.descr());
        }
        out
    });
    res.absorb(merge_jobs(outs));
    // determinism gate: one run twice, identical digest
    if !res.out.failed() {
        let probe = LongRun { cfg: Cfg::p1(Kind::Sd, 5), regimes: vec![Regime::Walk, Regime::Saw], seglen: 5000, m: 0.7, force_bars: false };
        let dig = |_: ()| {
            let mut g = Gen::new(probe.m, ctx.seed);
            let mut s = make(&probe.cfg);
            let mut h = 0u64;
            for r in &probe.regimes {
                for i in 0..probe.seglen {
                    let o = s.next_s(g.price(*r, i));
                    h = (h ^ o.v[0].to_bits()).wrapping_mul(0x100000001b3);
                }
            }
            h
        };
        res.require(dig(()) == dig(()), "replay determinism gate: two executions of the same run differ");
    }
    res.exhaustive = false;
    res.rule = "case = one long generated stream (period x band base x ordering of regime segments) fed to the real indicator without reset; at every 997th step, around every segment boundary and at the end the output is compared with a from-scratch double-double evaluation of the harness's own copy of the window at tolerance tau(t)*M (variances *M^2; CCI/MFI *c, gated); MIN/MAX exact; distinct by construction; non-trivial = applicable comparison".into();
    res.bounds = format!("periods {periods:?} x band bases {bases:?} x all {}^{k} orderings of {{extremes, saw-tooth, LCG walk, plateau, spikes, stair (price rests every other step), short saw-tooth 1.1+(t mod 7)*123.456, exact triangle c,c+d,c,c-d, quiet (ticks of 1e-5 around the band's lower end)}} (every 5th ordering for periods > 14 in thorough; O(n)-per-step subjects shortened), total length {total} per run; plus single-regime runs of 250k / 2M steps for periods 2 and 3; period 70000 on 150k / 300k steps (O(1)-per-step subjects); subjects SMA, WMA, SD, BB, MAD, CCI, MFI, MIN, MAX (every 4th ordering also through the bar path of the close-/low-/high-reading ones, periods <= 14)", set.len());
    res.assumptions = vec![
        "systematically enumerated family of long streams, not all streams: regime orderings, periods and scales are exhaustive, regime contents follow fixed generators (the LCG walk is seeded by VERIF_SEED)".into(),
    ];
    res
}
