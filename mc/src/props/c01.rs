//! C01 - sliding-window statistics equal the textbook value of exactly the
//! last min(t, n) inputs.

use super::refcmp::*;
use crate::alpha::*;
use crate::engine::*;
use crate::report::CheckResult;
use crate::subjects::{Cfg, Kind};
use crate::types::*;
use serde_json::json;

pub const PROP: &str = "C01";

pub fn subjects(n: usize, all_mults: bool) -> Vec<Cfg> {
    let mut v = vec![
        Cfg::p1(Kind::Sma, n),
        Cfg::p1(Kind::Wma, n),
        Cfg::p1(Kind::Sd, n),
        Cfg::p1(Kind::Mad, n),
        Cfg::p1(Kind::Min, n),
        Cfg::p1(Kind::Max, n),
        Cfg::pm(Kind::Bb, n, 2.0),
    ];
    if all_mults {
        for m in &MULT[1..] {
            v.push(Cfg::pm(Kind::Bb, n, *m));
        }
        v.push(Cfg::pm(Kind::Bb, n, -1.0));
    }
    v
}

pub fn run(ctx: &Ctx) -> CheckResult {
    let mut res = CheckResult::new(PROP, "model_checking");
    let th = ctx.tier_thorough;
    let (d_int, d_rough, d_bfs_n) = if th { (10, 8, 6) } else { (8, 6, 5) };

    // (a) + (b): bounded-exhaustive sequence spaces
    let mut spaces = vec![];
    for n in 1..=5usize {
        for cfg in subjects(n, true) {
            let side = cfg.kind == Kind::Bb && cfg.mult != 2.0;
            spaces.push(Space {
                cfg,
                alphabet: with_reset(s_ops(&S_INT)),
                depth: if side { d_int - 2 } else { d_int },
                label: "S_int+reset",
            });
            if !side {
                spaces.push(Space { cfg, alphabet: s_ops(&S_ULP), depth: d_rough, label: "S_ulp" });
                spaces.push(Space { cfg, alphabet: s_ops(&S_NEAR), depth: d_rough + 1, label: "S_near" });
                // scalar and bar inputs mixed on the same instance (bars: close; low for MIN; high for MAX)
                let mixed: Vec<Op> = vec![Op::S(1.0), Op::B(Bar::hlc(3.0, -1.0, 2.0)), Op::S(-2.0), Op::B(Bar::hlc(4.0, 0.0, 0.0)), Op::S(3.0), Op::Reset];
                spaces.push(Space { cfg, alphabet: mixed, depth: d_rough, label: "mixed scalar/bar" });
            }
            spaces.push(Space { cfg, alphabet: with_reset(s_ops(&S_TINY)), depth: if side { d_rough - 2 } else { d_rough }, label: "S_tiny+reset" });
            spaces.push(Space {
                cfg,
                alphabet: s_ops(&S_ROUGH),
                depth: if side { d_rough - 2 } else { d_rough },
                label: "S_rough",
            });
        }
    }
    // deep and narrow: three levels, periods 3..8 (balanced windows - the mean equals the newest value at
    // one particular ring phase - followed by the settled inputs that expose a wrong running sum)
    for n in 3..=8usize {
        for cfg in subjects(n, false) {
            spaces.push(Space { cfg, alphabet: s_ops(&S_NARROW), depth: if th { 12 } else { 10 }, label: "S_narrow" });
        }
    }
    let o = run_spaces(ctx, PROP, &spaces);
    let seq_nodes = o.stats.states;
    res.absorb(o);

    // (c) explicit-state fixpoints over the exact alphabet
    let mut bfs_rows = vec![];
    let mut bfs_states: std::collections::HashMap<String, u64> = std::collections::HashMap::new();
    let mut bfs_closed: std::collections::HashSet<String> = std::collections::HashSet::new();
    if !res.out.failed() {
        let mut jobs = vec![];
        for n in 1..=d_bfs_n {
            for k in [Kind::Sma, Kind::Wma, Kind::Mad, Kind::Min, Kind::Max] {
                jobs.push(Cfg::p1(k, n));
            }
        }
        let alphabet = s_ops(&S_INT);
        let outs = par_run(ctx, &jobs, |_, cfg| {
            let mut out = JobOut::default();
            let r = bfs(ctx, PROP, cfg, &alphabet, cfg.p[0], 3_000_000, 64, &mut out, |ops, last, out| {
                oracle_node(PROP, cfg, ops, last, out);
            });
            out.stats.states += r.states;
            out.stats.transitions += r.transitions;
            (out, r.states, r.transitions, r.depth, r.fixpoint, r.concrete)
        });
        for (cfg, (out, states, trans, depth, fix, concrete)) in jobs.iter().zip(outs) {
            let n = cfg.p[0] as u64;
            let a = alphabet.len() as u64;
            // closed form for content+cursor machines: sum_{k<n} a^k + n a^n
            let closed: u64 = (0..n).map(|k| a.pow(k as u32)).sum::<u64>() + n * a.pow(n as u32);
            bfs_states.insert(cfg.descr(), states);
            if fix {
                bfs_closed.insert(cfg.descr());
            }
            bfs_rows.push(json!({"subject": cfg.descr(), "states": states, "transitions": trans, "depth": depth, "fixpoint": fix, "concrete_states": concrete, "closed_form_content_cursor": closed}));
            if matches!(cfg.kind, Kind::Sma | Kind::Wma | Kind::Mad) && fix && !out.failed() {
                res.require(concrete == closed, &format!("{}: BFS reached {} concrete states, closed form says {} (de-duplication unsound?)", cfg.descr(), concrete, closed));
            }
            if !fix && !out.failed() {
                res.exhaustive = false;
            }
            res.absorb(out);
        }
    }

    // stateright cross-check of the fixpoint graphs (independent checker, same model)
    let mut xrows = vec![];
    if !res.out.failed() {
        let alphabet = s_ops(&S_INT);
        let nmax = if th { 5 } else { 4 };
        for n in 1..=nmax {
            for k in [Kind::Sma, Kind::Wma, Kind::Mad, Kind::Min, Kind::Max] {
                let cfg = Cfg::p1(k, n);
                let mine = bfs_states.get(&cfg.descr()).copied().unwrap_or(0);
                if !bfs_closed.contains(&cfg.descr()) {
                    // seqmc's graph did not close (already recorded as non-exhaustive): nothing finite to agree on
                    xrows.push(json!({"subject": cfg.descr(), "skipped": "seqmc BFS did not reach a fixpoint", "seqmc_states": mine}));
                    continue;
                }
                let x = crate::xcheck::run_indicator(&cfg, &alphabet, n, ctx.threads, 2 * mine as usize + 1000);
                xrows.push(json!({"subject": cfg.descr(), "stateright_unique_states": x.unique_states, "seqmc_states": mine, "discoveries": x.discoveries}));
                res.require(x.unique_states as u64 == mine, &format!("{}: stateright found {} unique states, seqmc BFS {}", cfg.descr(), x.unique_states, mine));
                res.require(x.discoveries == 0, &format!("{}: stateright reports a discovery although seqmc found no violation", cfg.descr()));
            }
        }
    }
    res.extra.insert("stateright_crosscheck".into(), json!(xrows));

    // (d) deviation-bounded families for large periods
    let mut fam_runs = 0u64;
    if !res.out.failed() {
        let periods: Vec<usize> = if th { P_BIG.to_vec() } else { vec![6, 7, 8, 9, 13, 14, 16, 20, 22, 31, 32, 33, 64, 100, 256, 257] };
        let mut fams: Vec<Family> = vec![];
        for &n in &periods {
            let len = 3 * n + 3;
            for cfg in subjects(n, false) {
                let heavy = matches!(cfg.kind, Kind::Mad) && n > 64;
                for (name, base) in base_patterns_scalar(len) {
                    // k = 0: every step for small n, wrap neighbourhood + stride otherwise
                    let check_at: Vec<usize> = if n <= 64 { (1..=len).collect() } else { (1..=len).filter(|s| s % 7 == 0 || s % n <= 2 || s % n >= n - 2).collect() };
                    fams.push(Family { cfg, base: base.clone(), base_name: name, deviations: vec![], check_at });
                    // k = 1: an outlier / zero at every position
                    let stride = if th { if heavy { 5 } else { 1 } } else if n <= 64 { 1 } else { 0 };
                    let positions: Vec<usize> = match stride {
                        0 => {
                            let mut v: Vec<usize> = vec![];
                            for c in [0, n, 2 * n] {
                                for d in 0..=4usize {
                                    if c + d < len {
                                        v.push(c + d);
                                    }
                                    if c >= d + 1 {
                                        v.push(c - d - 1);
                                    }
                                }
                            }
                            v.push(n / 2);
                            v.push(n + n / 2);
                            v.sort();
                            v.dedup();
                            v
                        }
                        s => (0..len).step_by(s).collect(),
                    };
                    for &p in &positions {
                        for dev in [1e6, -1e6, 0.0] {
                            fams.push(Family {
                                cfg,
                                base: base.clone(),
                                base_name: name,
                                deviations: vec![(p, Op::S(dev))],
                                check_at: interesting_steps(p, n, len),
                            });
                        }
                    }
                    // k = 1, the deviation being a reset(): the instance is re-used in mid-stream; everything
                    // after it is checked (the statistic restarts with t = 0 and an empty window)
                    for &p in &[1usize, n / 2, n.saturating_sub(1), n, n + 1, n + n / 2, 2 * n] {
                        if p < len {
                            let after: Vec<usize> = (p + 2..=len).filter(|s| n <= 64 || (s - p) % 7 == 0 || (s - p - 1) % n <= 2 || (s - p - 1) % n >= n - 2).collect();
                            fams.push(Family { cfg, base: base.clone(), base_name: name, deviations: vec![(p, Op::Reset)], check_at: after });
                        }
                    }
                    // k = 2 (thorough, n <= 16): every pair of positions
                    if th && n <= 16 {
                        for p in 0..len {
                            for q in p + 1..len {
                                let mut steps = interesting_steps(p, n, len);
                                steps.extend(interesting_steps(q, n, len));
                                fams.push(Family { cfg, base: base.clone(), base_name: name, deviations: vec![(p, Op::S(1e6)), (q, Op::S(-1e6))], check_at: steps });
                            }
                        }
                    }
                }
            }
        }
        // periods beyond 2^16: still warming up after 65 536 inputs (no padding may enter the statistic)
        for &n in &[65_537usize, 100_000] {
            // the longer stream fills the 100 000-window (a 32-bit triangular number n(n+1)/2 overflows from n = 92 682)
            let len = if n == 100_000 { 100_010 } else { 70_000 };
            for cfg in subjects(n, false) {
                if cfg.kind == Kind::Mad && !th {
                    continue; // O(window) per step
                }
                let base: std::sync::Arc<Vec<Op>> = std::sync::Arc::new((0..len).map(|i| Op::S(if i % 3 == 0 { 2.5 + (i % 11) as f64 } else { 1000.0 - (i % 7) as f64 * 0.5 })).collect());
                fams.push(Family { cfg, base, base_name: "zigzag-70000", deviations: vec![], check_at: vec![1, 2, 1000, 65_535, 65_536, 65_537, 65_540, 70_000, 92_681, 92_682, 92_683, 100_000, 100_001, len] });
            }
        }
        // medium periods on tick-grid walks (ties, plateaus, double tops at every phase of the ring)
        {
            let mut cfgs = vec![];
            for n in (6..=40usize).filter(|n| th || n % 2 == 0 || *n == 7 || *n == 9 || *n == 13) {
                cfgs.extend(subjects(n, false));
            }
            fams.extend(tick_walk_families(&cfgs, if th { 6000 } else { 1200 }, ctx.seed, false, false));
        }
        fam_runs = fams.len() as u64;
        let chunks: Vec<&[Family]> = fams.chunks(64).collect();
        let outs = par_run(ctx, &chunks, |_, chunk| {
            let mut out = JobOut::default();
            for f in chunk.iter() {
                if ctx.out_of_time() {
                    out.stats.capped.push("time cap in deviation families".into());
                    break;
                }
                run_family(PROP, f, &mut out);
                if out.failed() {
                    break;
                }
            }
            out
        });
        res.absorb(merge_jobs(outs));
    }

    // MIN / MAX at medium periods with up to three tie-producing deviations at every set of positions
    // (props/devfam.rs); the oracle is the plain scan of the last n values, exact
    let mut devfam_seqs = 0u64;
    if !res.out.failed() {
        use super::devfam::*;
        let plan: Vec<(usize, usize, &[Dev])> = if th { vec![(9, 3, &DEVS_ALL[..]), (10, 3, &DEVS_ABS[..]), (14, 3, &DEVS_ABS[..]), (17, 3, &DEVS_ALL[..]), (20, 3, &DEVS_ABS[..]), (33, 2, &DEVS_ALL[..])] } else { vec![(9, 3, &DEVS_ABS[..]), (9, 2, &DEVS_ALL[..]), (17, 3, &DEVS_ABS[..]), (17, 2, &DEVS_ALL[..])] };
        let mut jobs: Vec<(Cfg, Base, usize, usize, &[Dev], bool)> = vec![];
        for &(n, k, devs) in &plan {
            for b in BASES {
                for kind in [Kind::Min, Kind::Max] {
                    jobs.push((Cfg::p1(kind, n), b, n, k, devs, false));
                    jobs.push((Cfg::p1(kind, n), b, n, k, devs, true));
                }
            }
        }
        let outs = par_run(ctx, &jobs, |_, (cfg, b, n, k, devs, bars)| {
            let mut out = JobOut::default();
            let len = 3 * n + 3;
            let is_min = cfg.kind == Kind::Min;
            for first in 0..len {
                for kk in 1..=*k {
                    let go = for_each_from(first, len, kk, devs, &mut |set| {
                        let v = build(*b, *n, len, set);
                        out.stats.traces += 1;
                        out.stats.transitions += len as u64;
                        let r = std::panic::catch_unwind(std::panic::AssertUnwindSafe(|| {
                            let mut s = crate::subjects::make(cfg);
                            v.iter().map(|x| s.apply(&if *bars { Op::B(bar_of(*x)) } else { Op::S(*x) }).v[0]).collect::<Vec<f64>>()
                        }));
                        let got = match r {
                            Ok(g) => g,
                            Err(_) => {
                                out.fail(Violation::new(PROP, cfg, &to_ops(&v, *bars), "panic").obs("panic".into()).exp("the window extreme".into()));
                                return false;
                            }
                        };
                        for t in first..len {
                            let w = &v[(t + 1).saturating_sub(*n)..=t];
                            let e = if is_min { w.iter().cloned().fold(f64::INFINITY, f64::min) } else { w.iter().cloned().fold(f64::NEG_INFINITY, f64::max) };
                            let e = if *bars { if is_min { e - 0.125 } else { e + 0.125 } } else { e };
                            out.stats.states += 1;
                            out.stats.evaluations += 1;
                            if t >= *n {
                                out.stats.nontrivial += 1;
                            }
                            if got[t] != e {
                                let ops = to_ops(&v, *bars);
                                out.fail(Violation::new(PROP, cfg, &ops[..=t], "value-mismatch").obs(format!("[{}]", f2s(got[t]))).exp(format!("[{}]", f2s(e))).det(format!("window extreme must be exact; {:?} base with deviations {:?}", b, set)));
                                return false;
                            }
                        }
                        true
                    });
                    if !go {
                        return out;
                    }
                }
            }
            out
        });
        let m = merge_jobs(outs);
        devfam_seqs = m.stats.traces;
        res.absorb(m);
    }
    res.extra.insert("minmax_multi_deviation_sequences".into(), json!(devfam_seqs));

    // 2^32 + 2048 calls on one instance (a cursor / fill counter in a 32-bit type wraps there): the last 4000
    // steps - before, at and after the wrap - against the reference on the last window
    // (thorough tier: about 30 s per configuration here, several minutes on a slower machine)
    if th && !res.out.failed() {
        let mut hz: Vec<Cfg> = vec![Cfg::p1(Kind::Sd, 20), Cfg::p1(Kind::Sma, 10)];
        if th {
            hz.extend([Cfg::p1(Kind::Wma, 9), Cfg::p1(Kind::Min, 14), Cfg::p1(Kind::Max, 10), Cfg::pm(Kind::Bb, 20, 2.0)]);
        }
        let outs = par_run(ctx, &hz, |_, cfg| {
            let mut out = JobOut::default();
            let n = cfg.p[0];
            out.stats.traces += 1;
            out.stats.transitions += super::refcmp::CALLS_PAST_2_32;
            match run_past_2_32(cfg, ctx.seed ^ 0x3201) {
                Err(done) => out.fail(Violation::new(PROP, cfg, &[], "panic").obs(format!("panic in call number {}", done + 1)).exp("outputs".into())),
                Ok((ops, outs)) => {
                    let total = super::refcmp::CALLS_PAST_2_32 as usize;
                    for k in (n + 64)..ops.len() {
                        // (the reference needs the window only; tau(t) is taken at the true call number)
                        let step = total - (ops.len() - 1 - k);
                        let hist = &ops[k + 1 - n..=k];
                        let mut r = crate::refm::reference(cfg, hist);
                        r.m = 16.75;
                        out.stats.states += 1;
                        match crate::oracle::compare_with(cfg, step, &r, &outs[k]) {
                            crate::oracle::Verdict::Ok(_) => out.stats.evaluations += 1,
                            crate::oracle::Verdict::Skip(_) => out.stats.skipped += 1,
                            crate::oracle::Verdict::Fail { obs, exp, detail } => {
                                out.fail(Violation::new(PROP, cfg, hist, "value-mismatch").obs(obs).exp(exp).det(format!("{} [call number {} on one instance (2^32 = 4294967296), tolerance tau(t) for that t; ops shown = the current window]", detail, step)));
                                return out;
                            }
                        }
                    }
                }
            }
            out
        });
        res.extra.insert("calls_on_one_instance".into(), json!(super::refcmp::CALLS_PAST_2_32));
        res.absorb(merge_jobs(outs));
    }
    // Default::default() instances against the reference for the parameters they report
    if !res.out.failed() {
        let mut o = JobOut::default();
        default_instances(PROP, &[Kind::Sma, Kind::Wma, Kind::Sd, Kind::Mad, Kind::Min, Kind::Max, Kind::Bb], &mut o);
        res.absorb(o);
    }
    // LAST (its listed findings must not switch off the stages above): prices just below
    // f64::MAX, where any two-element sum overflows.  Reference and comparison after exact
    // scaling by 2^-600.  SMA/WMA/SD/BB keep running sums / squared deltas that overflow
    // here (listed findings); MAD, MIN, MAX handle these windows exactly today.
    if !res.out.failed() {
        let mut spaces = vec![];
        for n in 1..=5usize {
            for cfg in subjects(n, false) {
                spaces.push(Space { cfg, alphabet: with_reset(s_ops(&S_NEARMAX)), depth: if th { 8 } else { 6 }, label: "near-max scalar" });
            }
        }
        res.absorb(run_spaces(ctx, PROP, &spaces));
    }
    res.rule = "case = (configuration, operation history) replayed on a fresh real instance, output of the last op compared with the from-scratch double-double statistic of the last min(t,n) inputs since reset; distinct by construction (tree nodes / de-duplicated concrete states); non-trivial = oracle applicable and history longer than the window (at least one eviction)".into();
    res.bounds = format!(
        "seq(S_int+reset, {}), seq(S_rough, {}) and seq(S_tiny(2^-60 unit)+reset, same depth), seq(S_ulp = neighbours 1 and 4 ulps apart) for n=1..5 x {{SMA,WMA,SD,MAD,MIN,MAX,BB(mult 2; 0,0.5,3,-1 at depth-2)}}; BFS fixpoint over S_int for SMA/WMA/MAD/MIN/MAX n=1..{}; periods 65537 and 100000 on 70000 / 100010-step streams (checked around steps 65536, 92682 and 100000); Default::default() instances; seq(S_nearmax = {{1e308, 1.1e308, 1.2e308, 1.05e308}}+reset, 6/8) compared after exact scaling by 2^-600; tick-grid walks of 1200 / 6000 steps (with and without resets) for periods 6..40; deviation-bounded families (4 base streams, k<=1{} deviations at every position; reset() at 7 positions) for periods {:?}",
        d_int,
        d_rough,
        d_bfs_n,
        if th { ", k=2 for n<=16," } else { "" },
        if th { P_BIG.to_vec() } else { vec![6, 7, 8, 9, 13, 14, 16, 20, 22, 31, 32, 33, 64, 100, 256, 257] }
    );
    res.extra.insert("sequence_tree_nodes".into(), json!(seq_nodes));
    res.extra.insert("bfs".into(), json!(bfs_rows));
    res.extra.insert("deviation_family_runs".into(), json!(fam_runs));
    res.assumptions = vec![
        "value alphabets are finite (S_int, S_rough); magnitudes up to 1e12".into(),
        "reference = two-pass double-double evaluation (2^-100 relative error)".into(),
        "rustc/LLVM IEEE-754 semantics (no fast-math)".into(),
    ];
    let _ = Out::NONE;
    res
}
