//! C06 - serialize/deserialize at any point of a stream preserves all future outputs.

use crate::alpha::*;
use crate::engine::*;
use crate::report::CheckResult;
use crate::subjects::{make, Cfg, Subject, ALL_KINDS};
use crate::types::*;
use serde_json::json;
use std::collections::HashSet;
use ta::{Close, DataItem, High, Low, Open, Volume};

pub const PROP: &str = "C06";

fn params_text(s: &dyn Subject) -> String {
    format!("{}|{:?}|{:?}", s.disp(), s.period(), s.multiplier().map(|m| m.to_bits()))
}

struct CfgOut {
    out: JobOut,
    checkpoints: usize,
    sizes: Vec<usize>,
}

fn check_cfg(ctx: &Ctx, cfg: &Cfg, dp: usize) -> CfgOut {
    let mut out = JobOut::default();
    let mut alpha = generic_alphabet(cfg.kind, false);
    if !ctx.tier_thorough {
        alpha.truncate(3); // quick tier: 3 ordinary values
    }
    alpha.push(continuation_alphabet(cfg.kind)[3]); // a NaN-carrying input
    // a value 10^7 times larger: once it has left the window the running sums carry its rounding
    // residue, which a "recompute derived state on load" deserializer would silently drop
    alpha.push(if cfg.kind.has_scalar() { Op::S(33_000_000.7) } else { Op::B(Bar { o: 3.3e7, h: 4.4e7 + 0.3, l: 2.2e7 + 0.1, c: 33_000_000.7, v: 1.0e3 + 0.7 }) });
    let alpha = with_reset(alpha);
    // continuations may contain reset(): a restored copy must also RESET like the original
    let cont: Vec<Op> = with_reset(continuation_alphabet(cfg.kind)[..2].to_vec());
    let n = cfg.max_period();
    let cont_len = n + 2;
    let mut seen: HashSet<u128> = HashSet::new();
    let mut sizes: HashSet<usize> = HashSet::new();
    // checkpoints: the fresh state and every history
    let mut checkpoints: Vec<Vec<Op>> = vec![vec![]];
    let mut ops: Vec<Op> = vec![];
    seen.insert(state_key(make(cfg).as_ref(), &[]));
    for_each_seq(alpha.len(), None, dp, |seq| {
        ops.clear();
        ops.extend(seq.iter().map(|&a| alpha[a as usize]));
        out.stats.states += 1;
        out.stats.transitions += ops.len() as u64;
        match replay_subject_caught(cfg, &ops) {
            Ok((s, _)) => {
                if seen.insert(state_key(s.as_ref(), &[])) {
                    checkpoints.push(ops.clone());
                }
                true
            }
            Err(_) => {
                out.fail(Violation::new(PROP, cfg, &ops, "panic").obs("panic".into()).exp("a return value".into()));
                false
            }
        }
    });
    let mut full = Vec::new();
    'cp: for cp in &checkpoints {
        if out.failed() {
            break;
        }
        if ctx.out_of_time() {
            out.stats.capped.push(format!("time cap in checkpoints of {}", cfg.descr()));
            break;
        }
        let s = match replay_subject_caught(cfg, cp) {
            Ok((s, _)) => s,
            Err(_) => continue,
        };
        let want_params = params_text(s.as_ref());
        let bytes = match s.ser() {
            Ok(b) => b,
            Err(e) => {
                out.fail(Violation::new(PROP, cfg, cp, "serialize-failed").obs(e).exp("Ok(bytes)".into()));
                break;
            }
        };
        sizes.insert(bytes.len());
        // one and two round trips
        let r1 = match s.de(&bytes) {
            Ok(r) => r,
            Err(e) => {
                out.fail(Violation::new(PROP, cfg, cp, "deserialize-failed").obs(e).exp("Ok(indicator)".into()));
                break;
            }
        };
        let bytes2 = match r1.ser() {
            Ok(b) => b,
            Err(e) => {
                out.fail(Violation::new(PROP, cfg, cp, "serialize-failed").obs(e).exp("Ok(bytes) on the restored copy".into()));
                break;
            }
        };
        if params_text(r1.as_ref()) != want_params {
            out.fail(
                Violation::new(PROP, cfg, cp, "parameters-changed")
                    .obs(params_text(r1.as_ref()))
                    .exp(want_params.clone())
                    .det("Display/period()/multiplier() of the restored copy differ".into())
                    .with("checkpoint", format!("serde@{}", cp.len())),
            );
            break;
        }
        // every continuation: original by replay vs restored once vs restored twice
        let mut failed: Option<Violation> = None;
        for_each_seq_exact(cont.len(), cont_len, |seq| {
            full.clear();
            full.extend_from_slice(cp);
            full.extend(seq.iter().map(|&a| cont[a as usize]));
            let r = std::panic::catch_unwind(std::panic::AssertUnwindSafe(|| {
                let mut a = make(cfg);
                for op in cp.iter() {
                    a.apply(op);
                }
                let mut b1 = s.de(&bytes).map_err(|e| format!("deserialize: {}", e))?;
                let mut b2 = s.de(&bytes2).map_err(|e| format!("deserialize (2nd round trip): {}", e))?;
                for (i, op) in full[cp.len()..].iter().enumerate() {
                    let oa = a.apply(op);
                    let o1 = b1.apply(op);
                    let o2 = b2.apply(op);
                    if !out_rel_eq(&oa, &o1, 1e-12) {
                        return Ok(Some((i, oa, o1, 1)));
                    }
                    if !out_rel_eq(&oa, &o2, 1e-12) {
                        return Ok(Some((i, oa, o2, 2)));
                    }
                }
                if params_text(b1.as_ref()) != params_text(a.as_ref()) {
                    return Err("parameters differ after continuation".to_string());
                }
                Ok::<_, String>(None)
            }));
            out.stats.traces += 1;
            out.stats.transitions += (cp.len() + 3 * cont_len) as u64;
            out.stats.evaluations += 2 * cont_len as u64;
            if cp.len() >= n {
                out.stats.nontrivial += 1;
            }
            match r {
                Ok(Ok(None)) => true,
                Ok(Ok(Some((i, oa, ob, trips)))) => {
                    failed = Some(
                        Violation::new(PROP, cfg, &full[..cp.len() + i + 1], "restored-copy-differs")
                            .obs(out2s(&ob))
                            .exp(out2s(&oa))
                            .det(format!("checkpoint after {} ops, {} round trip(s): continuation output {} of the restored copy differs from the original", cp.len(), trips, i + 1))
                            .with("checkpoint", format!("serde@{}", cp.len())),
                    );
                    false
                }
                Ok(Err(e)) => {
                    failed = Some(Violation::new(PROP, cfg, &full, "deserialize-failed").obs(e).exp("restored copy".into()).with("checkpoint", format!("serde@{}", cp.len())));
                    false
                }
                Err(_) => {
                    failed = Some(Violation::new(PROP, cfg, &full, "panic").obs("panic".into()).exp("same outputs".into()).with("checkpoint", format!("serde@{}", cp.len())));
                    false
                }
            }
        });
        if let Some(v) = failed {
            out.fail(v);
            break 'cp;
        }
    }
    out.stats.sample(|| format!("{}: checkpoint after [{}], bincode round trip x1 and x2, all {}^{} continuations", cfg.descr(), ops_text(checkpoints.last().unwrap()), cont.len(), cont_len));
    CfgOut { out, checkpoints: checkpoints.len(), sizes: sizes.into_iter().collect() }
}

/// Larger periods: every prefix length 0..=3n+3 of two default streams is a
/// checkpoint; the restored copy (one and two round trips) must follow the
/// original over three continuations of n+2 inputs.
fn long_history_family(ctx: &Ctx, cfg: &Cfg) -> JobOut {
    let mut out = JobOut::default();
    let n = cfg.max_period();
    let len = 3 * n + 3;
    let alpha = generic_alphabet(cfg.kind, false);
    let nan = continuation_alphabet(cfg.kind)[3];
    let streams: Vec<Vec<Op>> = vec![
        (0..len).map(|i| alpha[(i * 5 + i / 3) % alpha.len()]).collect(),
        (0..len).map(|i| if i == n / 2 || i == 2 * n { Op::Reset } else if i == n + 1 { nan } else { alpha[(i / 2) % alpha.len()] }).collect(),
        // a tick-grid walk (ties, plateaus, runs): a checkpoint at every phase of a tie-rich history
        super::refcmp::tick_walk(len, ctx.seed ^ 0x6, !cfg.kind.has_scalar(), true, false).as_ref().clone(),
    ];
    let conts: Vec<Vec<Op>> = vec![
        (0..n + 2).map(|i| alpha[i % alpha.len()]).collect(),
        (0..n + 2).map(|i| alpha[(i * 3 + 2) % alpha.len()]).collect(),
        (0..n + 2).map(|i| alpha[3 - (i / 2) % alpha.len().min(4)]).collect(),
    ];
    for st in &streams {
        for l in 0..=len {
            if ctx.out_of_time() {
                out.stats.capped.push(format!("time cap in long-history family of {}", cfg.descr()));
                return out;
            }
            let cp = &st[..l];
            out.stats.states += 1;
            let r = std::panic::catch_unwind(std::panic::AssertUnwindSafe(|| {
                let mut a = make(cfg);
                for op in cp {
                    a.apply(op);
                }
                let bytes = a.ser().map_err(|e| (0usize, 0usize, format!("serialize: {}", e)))?;
                let r1 = a.de(&bytes).map_err(|e| (0usize, 0usize, format!("deserialize: {}", e)))?;
                let bytes2 = r1.ser().map_err(|e| (0usize, 0usize, format!("serialize restored: {}", e)))?;
                if params_text(r1.as_ref()) != params_text(a.as_ref()) {
                    return Err((0, 0, format!("parameters {} vs {}", params_text(r1.as_ref()), params_text(a.as_ref()))));
                }
                for (ci, c) in conts.iter().enumerate() {
                    let mut orig = make(cfg);
                    for op in cp {
                        orig.apply(op);
                    }
                    let mut b1 = a.de(&bytes).map_err(|e| (ci, 0usize, format!("deserialize: {}", e)))?;
                    let mut b2 = a.de(&bytes2).map_err(|e| (ci, 0usize, format!("deserialize 2nd: {}", e)))?;
                    for (i, op) in c.iter().enumerate() {
                        let oa = orig.apply(op);
                        let o1 = b1.apply(op);
                        let o2 = b2.apply(op);
                        if !out_rel_eq(&oa, &o1, 1e-12) || !out_rel_eq(&oa, &o2, 1e-12) {
                            return Err((ci, i + 1, format!("original {} restored {} / {}", out2s(&oa), out2s(&o1), out2s(&o2))));
                        }
                    }
                }
                Ok(())
            }));
            out.stats.traces += 3;
            out.stats.transitions += (4 * l + 9 * (n + 2)) as u64;
            out.stats.evaluations += 6 * (n + 2) as u64;
            out.stats.nontrivial += 1;
            match r {
                Ok(Ok(())) => {}
                Ok(Err((ci, i, why))) => {
                    let mut ops = cp.to_vec();
                    ops.extend_from_slice(&conts[ci][..i]);
                    out.fail(
                        Violation::new(PROP, cfg, &ops, if why.contains("serialize") { "deserialize-failed" } else if why.starts_with("parameters") { "parameters-changed" } else { "restored-copy-differs" })
                            .obs(why)
                            .exp("restored copy behaves like the original".into())
                            .det(format!("checkpoint after {} ops of a default stream, continuation output {}", l, i))
                            .with("checkpoint", format!("serde@{}", l)),
                    );
                    return out;
                }
                Err(_) => {
                    out.fail(Violation::new(PROP, cfg, cp, "panic").obs("panic".into()).exp("same outputs".into()));
                    return out;
                }
            }
        }
    }
    out
}

/// DataItem: every lattice tuple that build() accepts round-trips to an equal value.
/// Windows beyond 2^16 values: one stream of 70 010 inputs on one instance; at checkpoints around
/// 65 536 and around the period the instance is serialized and restored, and the restored copy is fed
/// the next 6 inputs of the stream alongside the original (which simply continues).
fn huge_window(cfg: &Cfg) -> JobOut {
    let mut out = JobOut::default();
    let n = cfg.max_period();
    let cps: Vec<usize> = vec![1000, 65_535, 65_536, 65_537, n - 1, n, n + 1];
    let k = 6usize;
    let len = n + 10;
    let op_at = |i: usize| -> Op {
        let x = if i % 3 == 0 { 2.5 + (i % 11) as f64 } else { 1000.0 - (i % 7) as f64 * 0.5 };
        if cfg.kind.has_scalar() {
            Op::S(x)
        } else {
            Op::B(Bar { o: x, h: x * 1.25, l: x * 0.5, c: x * (0.5 + 0.25 * (i % 4) as f64), v: 1.0 + (i % 3) as f64 })
        }
    };
    let r = std::panic::catch_unwind(std::panic::AssertUnwindSafe(|| -> Result<(), (usize, usize, String)> {
        let mut a = make(cfg);
        let mut restored: Option<(usize, Box<dyn Subject>)> = None;
        for i in 0..len {
            if cps.contains(&i) {
                let bytes = a.ser().map_err(|e| (i, 0usize, format!("serialize: {}", e)))?;
                let b = a.de(&bytes).map_err(|e| (i, 0usize, format!("deserialize: {}", e)))?;
                if params_text(b.as_ref()) != params_text(a.as_ref()) {
                    return Err((i, 0, format!("parameters {} vs {}", params_text(b.as_ref()), params_text(a.as_ref()))));
                }
                restored = Some((i, b));
            }
            let op = op_at(i);
            let oa = a.apply(&op);
            if let Some((cp, b)) = restored.as_mut() {
                let ob = b.apply(&op);
                if !out_rel_eq(&oa, &ob, 1e-12) {
                    return Err((*cp, i - *cp + 1, format!("original {} restored {}", out2s(&oa), out2s(&ob))));
                }
                if i + 1 - *cp >= k {
                    restored = None;
                }
            }
        }
        Ok(())
    }));
    out.stats.traces += 1;
    out.stats.states += cps.len() as u64;
    out.stats.transitions += (len + cps.len() * k) as u64;
    out.stats.evaluations += (cps.len() * k) as u64;
    out.stats.nontrivial += cps.len() as u64;
    match r {
        Ok(Ok(())) => {}
        Ok(Err((cp, i, why))) => {
            out.fail(
                Violation::new(PROP, cfg, &[], if why.contains("serialize") { "deserialize-failed" } else if why.starts_with("parameters") { "parameters-changed" } else { "restored-copy-differs" })
                    .obs(why)
                    .exp("restored copy behaves like the original".into())
                    .det(format!("checkpoint after {} inputs of the zigzag stream (x_i = 2.5 + i%11 if i%3 == 0 else 1000 - (i%7)/2), continuation output {}", cp, i))
                    .with("checkpoint", format!("serde@{}", cp))
                    .with("generator", "zigzag-70010".to_string()),
            );
        }
        Err(_) => out.fail(Violation::new(PROP, cfg, &[], "panic").obs("panic".into()).exp("same outputs".into())),
    }
    out
}

fn data_items(out: &mut JobOut) {
    let lat = [f64::NEG_INFINITY, -2.0, -1.0, -0.0, 0.0, 1.0, 2.0, 3.0, f64::INFINITY, f64::NAN];
    let dummy = Cfg::p0(crate::subjects::Kind::Obv);
    // a self-describing TEXT format as well (serde_json with exact float parsing): finite items over computed,
    // off-grid values - a serializer may branch on Serializer::is_human_readable()
    {
        let vals = [2.5e-9, 0.1 + 0.2, 1.0, 1.0000000001, 7.0, 100.0 / 3.0, 12345.678912345678];
        for i in 0..vals.len() {
            for j in i..vals.len() {
                for k in i..vals.len() {
                    for m in j.max(k)..vals.len() {
                        for &v in &vals {
                            let (l, o, c, h) = (vals[i], vals[j], vals[k], vals[m]);
                            let it = match DataItem::builder().open(o).high(h).low(l).close(c).volume(v).build() {
                                Ok(it) => it,
                                Err(_) => continue,
                            };
                            let back: Result<DataItem, String> = serde_json::to_string(&it).map_err(|e| e.to_string()).and_then(|t| serde_json::from_str(&t).map_err(|e| e.to_string()));
                            let ok = match &back {
                                Ok(b) => *b == it && b.open().to_bits() == o.to_bits() && b.high().to_bits() == h.to_bits() && b.low().to_bits() == l.to_bits() && b.close().to_bits() == c.to_bits() && b.volume().to_bits() == v.to_bits(),
                                Err(_) => false,
                            };
                            out.stats.evaluations += 1;
                            if !ok {
                                out.fail(Violation::new(PROP, &dummy, &[Op::B(Bar { o, h, l, c, v })], "dataitem-roundtrip").obs(format!("{:?}", back)).exp(format!("{:?}", it)).det("DataItem does not round-trip through JSON (serde_json, exact float parsing) to an equal value".into()));
                                return;
                            }
                        }
                    }
                }
            }
        }
    }
    let mut built = 0u64;
    for &o in &lat {
        for &h in &lat {
            for &l in &lat {
                for &c in &lat {
                    for &v in &lat {
                        let item = DataItem::builder().open(o).high(h).low(l).close(c).volume(v).build();
                        if let Ok(it) = item {
                            built += 1;
                            let bytes = bincode::serialize(&it).unwrap_or_default();
                            let back: Result<DataItem, _> = bincode::deserialize(&bytes);
                            let ok = match &back {
                                Ok(b) => {
                                    *b == it
                                        && b.open().to_bits() == o.to_bits()
                                        && b.high().to_bits() == h.to_bits()
                                        && b.low().to_bits() == l.to_bits()
                                        && b.close().to_bits() == c.to_bits()
                                        && b.volume().to_bits() == v.to_bits()
                                }
                                Err(_) => false,
                            };
                            out.stats.evaluations += 1;
                            if !ok {
                                out.fail(
                                    Violation::new(PROP, &dummy, &[Op::B(Bar { o, h, l, c, v })], "dataitem-roundtrip")
                                        .obs(format!("{:?}", back.map_err(|e| e.to_string())))
                                        .exp(format!("{:?}", it))
                                        .det("DataItem does not round-trip through bincode to an equal value".into()),
                                );
                                return;
                            }
                        }
                    }
                }
            }
        }
    }
    // volumes that are not whole numbers / beyond 2^64 (prices fixed)
    for v in [0.375, 1e-300, 2.5, 1.0e20, 1.8446744073709552e19, f64::MAX] {
        if let Ok(it) = DataItem::builder().open(1.5).high(2.25).low(1.125).close(2.0).volume(v).build() {
            built += 1;
            out.stats.evaluations += 1;
            let bytes = bincode::serialize(&it).unwrap_or_default();
            let back: Result<DataItem, _> = bincode::deserialize(&bytes);
            let ok = matches!(&back, Ok(b) if *b == it && b.volume().to_bits() == v.to_bits());
            if !ok {
                out.fail(Violation::new(PROP, &dummy, &[Op::B(Bar { o: 1.5, h: 2.25, l: 1.125, c: 2.0, v })], "dataitem-roundtrip").obs(format!("{:?}", back.map_err(|e| e.to_string()))).exp(format!("{:?}", it)).det("DataItem does not round-trip through bincode to an equal value".into()));
                return;
            }
        }
    }
    out.stats.add("dataitems_round_tripped", built);
    out.stats.states += built;
    out.stats.traces += built;
}

pub fn run(ctx: &Ctx) -> CheckResult {
    let mut res = CheckResult::new(PROP, "model_checking");
    let th = ctx.tier_thorough;
    let dp = if th { 6 } else { 4 };
    let mut cfgs = vec![];
    for k in ALL_KINDS {
        cfgs.extend(generic_cfgs(k, &[1, 2, 3, 4], &[1, 2, 3]));
    }
    cfgs.sort_by_key(|c| std::cmp::Reverse(c.max_period()));
    let outs = par_run(ctx, &cfgs, |_, cfg| check_cfg(ctx, cfg, dp));
    let mut rows = vec![];
    let mut total_cp = 0usize;
    for (cfg, o) in cfgs.iter().zip(outs) {
        rows.push(json!({"subject": cfg.descr(), "distinct_checkpoint_states": o.checkpoints, "serialized_sizes": o.sizes}));
        total_cp += o.checkpoints;
        res.absorb(o.out);
    }
    if !res.out.failed() {
        let periods: Vec<usize> = if th { vec![5, 6, 7, 8, 9, 10, 12, 14, 16, 20, 22, 26, 31, 32, 33, 64, 100, 255, 256, 257] } else { vec![5, 8, 9, 10, 14, 16, 20, 22, 26, 32, 64] };
        let mut big = vec![];
        for k in ALL_KINDS {
            big.extend(generic_cfgs(k, &periods, &[9, 12, 26]));
        }
        big.sort_by_key(|c| std::cmp::Reverse(c.max_period()));
        let outs = par_run(ctx, &big, |_, cfg| long_history_family(ctx, cfg));
        res.extra.insert("long_history_family_configs".into(), json!(big.len()));
        res.absorb(merge_jobs(outs));
    }
    // parameters and Display text across a round trip for EVERY period 1..=2000 (a period re-derived from
    // another stored quantity is wrong for isolated periods only), after one input
    if !res.out.failed() {
        use crate::subjects::Kind;
        let kinds: Vec<Kind> = ALL_KINDS.iter().copied().filter(|k| k.nperiods() >= 1).collect();
        let outs = par_run(ctx, &kinds, |_, &k| {
            let mut out = JobOut::default();
            let alpha = generic_alphabet(k, false);
            let sweep_full = if matches!(k, Kind::Mad | Kind::Cci | Kind::Er) { if th { 700 } else { 300 } } else if th { 2000 } else { 1100 };
            for p in 1..=2000usize {
                let cfgs: Vec<Cfg> = match k.nperiods() {
                    1 => vec![if k.has_mult() { Cfg::pm(k, p, 2.0) } else { Cfg::p1(k, p) }],
                    2 => vec![Cfg::p2(k, p, 3), Cfg::p2(k, 3, p)],
                    _ => vec![Cfg::p3(k, p, 26, 9), Cfg::p3(k, 12, p, 9), Cfg::p3(k, 12, 26, p)],
                };
                for cfg in cfgs {
                    out.stats.states += 1;
                    out.stats.evaluations += 1;
                    let r = std::panic::catch_unwind(std::panic::AssertUnwindSafe(|| {
                        let mut a = make(&cfg);
                        a.apply(&alpha[0]);
                        let bytes = a.ser().map_err(|e| format!("serialize: {}", e))?;
                        let b = a.de(&bytes).map_err(|e| format!("deserialize: {}", e))?;
                        if params_text(b.as_ref()) != params_text(a.as_ref()) {
                            return Err(format!("parameters {} vs {}", params_text(b.as_ref()), params_text(a.as_ref())));
                        }
                        // a full window plus the wrap-around (cursor / counter widths chosen from the period fail
                        // for isolated period values such as 255), round trip, 24 more inputs on both
                        let linear = matches!(k, Kind::Mad | Kind::Cci | Kind::Er);
                        if p <= sweep_full || (!linear && (p + 2).is_power_of_two()) || (p + 1).is_power_of_two() || p.is_power_of_two() || (p - 1).is_power_of_two() {
                            let w = cfg.max_period();
                            for i in 1..(w + 2) {
                                a.apply(&alpha[(i * 7 + i / 3) % alpha.len()]);
                            }
                            let bytes = a.ser().map_err(|e| format!("serialize: {}", e))?;
                            let mut b = a.de(&bytes).map_err(|e| format!("deserialize: {}", e))?;
                            for i in 0..24usize {
                                let op = alpha[(i * 5 + 1) % alpha.len()];
                                let oa = a.apply(&op);
                                let ob = b.apply(&op);
                                for c in 0..oa.n as usize {
                                    if oa.v[c].to_bits() != ob.v[c].to_bits() && !(oa.v[c].is_nan() && ob.v[c].is_nan()) {
                                        return Err(format!("continuation step {} after a round trip at {} inputs: original {} restored {}", i + 1, w + 1, out2s(&oa), out2s(&ob)));
                                    }
                                }
                            }
                        }
                        Ok(())
                    }));
                    match r {
                        Ok(Ok(())) => {}
                        Ok(Err(why)) => {
                            out.fail(Violation::new(PROP, &cfg, &alpha[..1], if why.starts_with("parameters") { "parameters-changed" } else if why.starts_with("continuation") { "continuation-differs" } else { "deserialize-failed" }).obs(why).exp("restored copy has the same parameters and Display text".into()).with("checkpoint", "serde@1".to_string()));
                            return out;
                        }
                        Err(_) => {
                            out.fail(Violation::new(PROP, &cfg, &alpha[..1], "panic").obs("panic".into()).exp("a round trip".into()));
                            return out;
                        }
                    }
                }
            }
            out
        });
        res.absorb(merge_jobs(outs));
    }
    // windows beyond 2^16 values (cursor / counter width on the wire)
    if !res.out.failed() {
        use crate::subjects::Kind;
        let mut huge = vec![];
        for k in ALL_KINDS {
            if !k.allocates() || k.nperiods() != 1 {
                continue;
            }
            // O(window) per step: thorough only
            if matches!(k, Kind::Mad | Kind::Cci | Kind::Er) && !th {
                continue;
            }
            huge.push(if k.has_mult() { Cfg::pm(k, 70_000, 2.0) } else { Cfg::p1(k, 70_000) });
        }
        huge.push(Cfg::p2(crate::subjects::Kind::SlowStoch, 70_000, 3));
        let outs = par_run(ctx, &huge, |_, cfg| huge_window(cfg));
        res.absorb(merge_jobs(outs));
    }
    if !res.out.failed() {
        let mut o = JobOut::default();
        data_items(&mut o);
        res.absorb(o);
    }
    // lifecycle state graph: Serde checked in EVERY reachable state (fixpoint where the graph is finite)
    if !res.out.failed() {
        let (o, grows) = super::graph::run_all(ctx, PROP, super::graph::Fork::Serde, if th { &[1, 2, 3, 4, 5] } else { &[1, 2, 3, 4] }, &[1, 2], if th { 150_000 } else { 5_000 }, if th { 16 } else { 10 });
        let fixpoints = grows.iter().filter(|r| r["fixpoint"] == true).count();
        res.extra.insert("lifecycle_graph".into(), json!(grows));
        res.extra.insert("lifecycle_graph_fixpoints".into(), json!(fixpoints));
        res.absorb(o);
    }
    res.extra.insert("checkpoints".into(), json!(rows));
    res.extra.insert("distinct_checkpoint_states_total".into(), json!(total_cp));
    res.rule = "case = (configuration, checkpoint history, continuation): the real indicator after the history is serialized with bincode and deserialized once and twice; every continuation of n+2 inputs over 3 values is fed to the original (rebuilt by replay) and both restored copies, outputs compared at 1e-12 relative; checkpoints de-duplicated by concrete state; non-trivial = checkpoint history at least as long as the window".into();
    res.bounds = format!("all 22 indicators, periods 1..4 (tuples over {{1,2,3}}), every history in seq(3 (thorough: 4) values + NaN + a 3.3e7 spike + reset, {dp}) as checkpoint, all 3^(n+2) continuations over 2 values + reset; long-history family: every prefix length 0..=3n+3 of 2 default streams (with resets and a NaN) as checkpoint for periods up to 64/257 (defaults 9,10,14,20,22,12/26/9 included), 3 continuations of n+2 inputs; parameters / Display across a round trip for every period 1..=2000 in every position, and for every period up to 1100 / 2000 (300 / 700 for the O(n)-per-step indicators; powers of two +-1 beyond) a round trip after a full window plus one input followed by 24 more inputs; period 70000 on a 70010-step stream with checkpoints at 1000, 65535..65537 and 69999..70001; all 10^5 lattice DataItems that build() accepts through bincode, and ~1500 finite items over computed off-grid values through JSON");
    res.assumptions = vec!["bincode 1.3 is the serialization format exercised (the property names it)".into()];
    res
}
