//! Deviation-bounded families for medium periods with SEVERAL deviations (k <= 3).
//!
//! A shortcut that only exists for windows longer than some cut-off (8, 16, ...) is invisible to the
//! exhaustive tier (periods 1..5), and the events it needs - an extreme, a second copy of it, a third one
//! exactly one period later, a dip right after a peak, ... - are not produced by one outlier on a default
//! stream.  Here every base stream (flat / rising / falling / saw-tooth, all on a dyadic grid, so ties are
//! exact) is perturbed at EVERY set of at most k positions with every assignment of deviation kinds:
//!   Lo / Hi   one fixed value below / above every base value (all copies equal: multi-way ties of the extreme)
//!   Dip / Bump  the base value moved by n/2 grid steps (equal to the base value n/2 positions away on a ramp)
//! and the caller's oracle judges every step from the first deviation on (the prefix before it is the k = 0 run).
//! Enumeration is exhaustive within (base, len, k, kinds); counts are reported by the callers.

use crate::types::*;

#[derive(Clone, Copy, Debug, PartialEq)]
pub enum Base {
    Flat,
    Up,
    Down,
    Saw,
}

pub const BASES: [Base; 4] = [Base::Flat, Base::Down, Base::Up, Base::Saw];

#[derive(Clone, Copy, Debug, PartialEq)]
pub enum Dev {
    Lo,
    Hi,
    Dip,
    Bump,
}

pub const DEVS_ABS: [Dev; 2] = [Dev::Lo, Dev::Hi];
pub const DEVS_ALL: [Dev; 4] = [Dev::Lo, Dev::Hi, Dev::Dip, Dev::Bump];

pub fn base_value(b: Base, i: usize) -> f64 {
    match b {
        Base::Flat => 100.0,
        Base::Up => 100.0 + 0.25 * i as f64,
        Base::Down => 200.0 - 0.25 * i as f64,
        Base::Saw => 100.0 + 0.5 * ((i % 4) as f64) + if i % 8 >= 4 { 0.25 } else { 0.0 },
    }
}

pub fn dev_value(d: Dev, b: Base, i: usize, n: usize) -> f64 {
    let half = 0.25 * ((n / 2).max(1)) as f64;
    match d {
        Dev::Lo => 50.5,
        Dev::Hi => 300.5,
        Dev::Dip => base_value(b, i) - half,
        Dev::Bump => base_value(b, i) + half,
    }
}

/// scalar stream
pub fn build(b: Base, n: usize, len: usize, devs: &[(usize, Dev)]) -> Vec<f64> {
    let mut v: Vec<f64> = (0..len).map(|i| base_value(b, i)).collect();
    for (p, d) in devs {
        v[*p] = dev_value(*d, b, *p, n);
    }
    v
}

/// A valid bar around a value (low < close < high, half a grid step each side).
pub fn bar_of(x: f64) -> Bar {
    Bar { o: x, h: x + 0.125, l: x - 0.125, c: x, v: 1.0 }
}

pub fn to_ops(v: &[f64], bars: bool) -> Vec<Op> {
    v.iter().map(|x| if bars { Op::B(bar_of(*x)) } else { Op::S(*x) }).collect()
}

/// Every deviation set with exactly `k` positions whose smallest position is `first`, every kind assignment.
pub fn for_each_from(first: usize, len: usize, k: usize, kinds: &[Dev], f: &mut dyn FnMut(&[(usize, Dev)]) -> bool) -> bool {
    fn rec(cur: &mut Vec<(usize, Dev)>, from: usize, len: usize, left: usize, kinds: &[Dev], f: &mut dyn FnMut(&[(usize, Dev)]) -> bool) -> bool {
        if left == 0 {
            return f(cur);
        }
        for p in from..len {
            for d in kinds {
                cur.push((p, *d));
                let go = rec(cur, p + 1, len, left - 1, kinds, f);
                cur.pop();
                if !go {
                    return false;
                }
            }
        }
        true
    }
    if k == 0 {
        return true;
    }
    let mut cur = vec![];
    for d in kinds {
        cur.push((first, *d));
        let go = rec(&mut cur, first + 1, len, k - 1, kinds, f);
        cur.pop();
        if !go {
            return false;
        }
    }
    true
}

/// number of deviation sets enumerated by `for_each_from` over all `first` for sizes 1..=k
pub fn count(len: usize, k: usize, kinds: usize) -> u64 {
    let mut total = 0u64;
    let mut c = 1u64; // C(len, j)
    let mut kp = 1u64;
    for j in 1..=k {
        c = c * (len as u64 - j as u64 + 1) / j as u64;
        kp *= kinds as u64;
        total += c * kp;
    }
    total
}
