//! C18 - state size and heap use depend on the parameters only, never on stream length.

use crate::alpha::*;
use crate::engine::*;
use crate::heap;
use crate::regimes::*;
use crate::report::CheckResult;
use crate::subjects::{make, Cfg, Kind, ALL_KINDS};
use crate::types::*;
use serde_json::json;

pub const PROP: &str = "C18";

fn bound(cfg: &Cfg) -> usize {
    256 + 64 * cfg.sum_periods()
}

fn gen_op(kind: Kind, g: &mut Gen, r: Regime, i: usize) -> Op {
    const VOL: [f64; 4] = [1.0, 3.0, 0.0, 2.0];
    if kind.has_scalar() {
        Op::S(g.price(r, i))
    } else {
        Op::B(g.bar(r, i, &VOL))
    }
}

/// (a) serialized size in every state of every short sequence
fn short_job(ctx: &Ctx, cfg: &Cfg, depth: usize) -> JobOut {
    let mut out = JobOut::default();
    let alpha: Vec<Op> = with_reset(generic_alphabet(cfg.kind, false)[..3].to_vec());
    let b = bound(cfg);
    let mut ops: Vec<Op> = vec![];
    let mut n = 0u64;
    let mut sizes = std::collections::BTreeSet::new();
    for_each_seq(alpha.len(), None, depth, |seq| {
        n += 1;
        if n % 4096 == 0 && ctx.out_of_time() {
            out.stats.capped.push(format!("time cap in {}", cfg.descr()));
            return false;
        }
        ops.clear();
        ops.extend(seq.iter().map(|&a| alpha[a as usize]));
        out.stats.states += 1;
        out.stats.traces += 1;
        out.stats.transitions += ops.len() as u64;
        match replay_subject_caught(cfg, &ops) {
            Ok((s, _)) => {
                let len = s.ser().map(|v| v.len()).unwrap_or(usize::MAX);
                sizes.insert(len);
                out.stats.evaluations += 1;
                if ops.len() > cfg.max_period() {
                    out.stats.nontrivial += 1;
                }
                if len > b {
                    out.fail(Violation::new(PROP, cfg, &ops, "serialized-size-exceeds-bound").obs(format!("{} bytes", len)).exp(format!("<= 256 + 64*sum(periods) = {} bytes", b)));
                    return false;
                }
                true
            }
            Err(_) => {
                out.fail(Violation::new(PROP, cfg, &ops, "panic").obs("panic".into()).exp("a state".into()));
                false
            }
        }
    });
    out.stats.sample(|| format!("{}: serialized sizes seen over all sequences up to depth {}: {:?} (bound {})", cfg.descr(), depth, sizes, b));
    out
}

#[derive(Clone, Copy, Debug, PartialEq)]
pub enum Variant {
    Plain,
    /// reset() every k inputs (reset-and-refill sessions on the same instance)
    ResetEvery(usize),
    /// one NaN-carrying input right after warm-up
    OneNan,
    /// NaN, NaN, an ordinary input, +inf right after warm-up (several non-finite inputs inside one window:
    /// recovery code that handles one poisoned slot is not exercised by a single NaN)
    NanBurst,
    /// 3000 inputs of -inf and then 3000 of +inf right after warm-up (feeds that encode "no quote" that way):
    /// sizes are measured at the end of the run of infinities, before a finite input can clean up
    InfRun,
    /// bincode round trip right after warm-up; the run continues on the restored copy
    SerdeAfterWarmup,
    /// two inputs of magnitude ~1e154 (and volume 1e154) right after warm-up: products and sums overflow
    HugePair,
    /// the instance comes from Default::default(); the bound is computed from the parameters it reports
    DefaultInstance,
    /// right after warm-up the instance is copied with clone_from into an instance built with much larger
    /// periods that has consumed its own stream; the run continues on that copy, the bound is the one of
    /// the parameters it now reports
    CloneFromBigger,
    /// every `k` inputs the instance is replaced by its clone (true) / by a bincode-restored copy (false):
    /// checkpointing loops; growth per generation compounds
    ReplaceEvery(usize, bool),
    /// a single reset() right after warm-up, then the long run (a reset that leaves a mis-sized window
    /// behind only shows if nothing resets it again)
    ResetOnce,
    /// indicators with a scalar path: warm-up and every other segment arrive as bars, the rest as scalars
    /// (both input paths used on one instance)
    MixedPaths,
}

/// (b) long runs: serialized size at checkpoints, live heap after warm-up vs after every segment
fn long_job(cfg: &Cfg, regimes: &[Regime], seglen: usize, seed: u64, variant: Variant, out: &mut JobOut) {
    let b = bound(cfg) as isize;
    let n = cfg.max_period();
    let warm = 3 * n + 3;
    out.stats.traces += 1;
    let r = std::panic::catch_unwind(std::panic::AssertUnwindSafe(|| {
        let mut g = Gen::new(10.0, seed);
        let mut s = if variant == Variant::DefaultInstance { crate::subjects::make_default(cfg.kind) } else { make(cfg) };
        const VOLS: [f64; 4] = [1.0, 3.0, 0.0, 2.0];
        for i in 0..warm {
            let op = if variant == Variant::MixedPaths { Op::B(g.bar(Regime::Walk, i, &VOLS)) } else { gen_op(cfg.kind, &mut g, Regime::Walk, i) };
            s.apply(&op);
        }
        match variant {
            Variant::SerdeAfterWarmup => {
                let bytes = s.ser().unwrap_or_default();
                if let Ok(r) = s.de(&bytes) {
                    s = r;
                }
            }
            Variant::HugePair => {
                for x in [1.0e154, 1.5e154] {
                    let op = if cfg.kind.has_scalar() { Op::S(x) } else { Op::B(Bar { o: x, h: x * 1.5, l: x * 0.5, c: x, v: 1.0e154 }) };
                    s.apply(&op);
                }
            }
            Variant::ResetOnce => s.reset(),
            Variant::CloneFromBigger => {
                let mut tcfg = *cfg;
                for p in tcfg.p.iter_mut().take(cfg.kind.nperiods()) {
                    *p = *p * 8 + 4000;
                }
                let mut t = make(&tcfg);
                for i in 0..tcfg.max_period() + 5 {
                    let op = gen_op(cfg.kind, &mut g, Regime::Walk, i);
                    t.apply(&op);
                }
                if t.assign_from(s.as_ref()) {
                    s = t;
                }
            }
            Variant::OneNan => {
                let nan = if cfg.kind.has_scalar() { Op::S(f64::NAN) } else { Op::B(Bar { o: 1.0, h: f64::NAN, l: f64::NAN, c: f64::NAN, v: 1.0 }) };
                s.apply(&nan);
            }
            Variant::InfRun => {
                let bad = |x: f64| if cfg.kind.has_scalar() { Op::S(x) } else { Op::B(Bar { o: x, h: x, l: x, c: x, v: 1.0 }) };
                for _ in 0..3000 {
                    s.apply(&bad(f64::NEG_INFINITY));
                }
                for _ in 0..3000 {
                    s.apply(&bad(f64::INFINITY));
                }
            }
            Variant::NanBurst => {
                let bad = |x: f64| if cfg.kind.has_scalar() { Op::S(x) } else { Op::B(Bar { o: 1.0, h: x, l: x, c: x, v: 1.0 }) };
                s.apply(&bad(f64::NAN));
                s.apply(&bad(f64::NAN));
                s.apply(&gen_op(cfg.kind, &mut g, Regime::Walk, 0));
                s.apply(&bad(f64::INFINITY));
            }
            _ => {}
        }
        let size0 = s.ser().map(|v| v.len()).unwrap_or(usize::MAX);
        let h1 = heap::live();
        let a1 = heap::allocs();
        let mut worst_growth: isize = 0;
        let mut worst_size = size0;
        let mut t = warm;
        for (si, r) in regimes.iter().enumerate() {
            for i in 0..seglen {
                let op = if variant == Variant::MixedPaths && si % 2 == 1 { Op::B(g.bar(*r, i, &VOLS)) } else { gen_op(cfg.kind, &mut g, *r, i) };
                s.apply(&op);
                t += 1;
                if let Variant::ResetEvery(k) = variant {
                    if t % k == 0 {
                        s.reset();
                    }
                }
                if let Variant::ReplaceEvery(k, by_clone) = variant {
                    if t % k == 0 {
                        if by_clone {
                            s = s.dup();
                        } else if let Ok(bytes) = s.ser() {
                            if let Ok(r) = s.de(&bytes) {
                                s = r;
                            }
                        }
                    }
                }
                if i % 4999 == 0 {
                    let sz = s.ser().map(|v| v.len()).unwrap_or(usize::MAX);
                    worst_size = worst_size.max(sz);
                }
            }
            let growth = heap::live() - h1;
            worst_growth = worst_growth.max(growth);
            let sz = s.ser().map(|v| v.len()).unwrap_or(usize::MAX);
            worst_size = worst_size.max(sz);
        }
        let allocs = heap::allocs() - a1;
        (t, size0, worst_size, worst_growth, allocs)
    }));
    match r {
        Ok((t, size0, worst_size, growth, _allocs)) => {
            out.stats.transitions += t as u64;
            out.stats.states += regimes.len() as u64 + 1;
            out.stats.evaluations += 2;
            out.stats.nontrivial += 1;
            let name: Vec<String> = regimes.iter().map(|r| r.name().to_string()).chain(std::iter::once(format!("{:?}", variant))).collect();
            if worst_size as isize > b {
                out.fail(
                    Violation::new(PROP, cfg, &[], "serialized-size-exceeds-bound")
                        .obs(format!("{} bytes (was {} after warm-up)", worst_size, size0))
                        .exp(format!("<= 256 + 64*sum(periods) = {} bytes", b))
                        .det(format!("after {} inputs; shapes {:?} x {}", t, name, seglen))
                        .with("generator", format!("walk x {} warm-up then shapes {:?} x {} (m=10, seed={})", warm, name, seglen, seed)),
                );
            } else if growth > b {
                out.fail(
                    Violation::new(PROP, cfg, &[], "heap-grows-with-stream")
                        .obs(format!("live heap grew by {} bytes after warm-up", growth))
                        .exp(format!("net growth <= 256 + 64*sum(periods) = {} bytes", b))
                        .det(format!("after {} inputs; shapes {:?} x {}", t, name, seglen))
                        .with("generator", format!("walk x {} warm-up then shapes {:?} x {} (m=10, seed={})", warm, name, seglen, seed)),
                );
            }
            out.stats.ratio(growth.max(0) as f64, b as f64, || format!("{} shapes {:?}", cfg.descr(), name));
        }
        Err(_) => out.fail(Violation::new(PROP, cfg, &[], "panic").obs("panic".into()).exp("a run".into())),
    }
}

pub fn run(ctx: &Ctx) -> CheckResult {
    let mut res = CheckResult::new(PROP, "exploration");
    let th = ctx.tier_thorough;
    // (a)
    let mut cfgs = vec![];
    for k in ALL_KINDS {
        cfgs.extend(generic_cfgs(k, &[1, 2, 3, 4], &[1, 3]));
    }
    cfgs.sort_by_key(|c| std::cmp::Reverse(c.max_period()));
    let outs = par_run(ctx, &cfgs, |_, cfg| short_job(ctx, cfg, (3 * cfg.max_period() + 3).min(if th { 13 } else { 10 })));
    res.absorb(merge_jobs(outs));
    // (b)
    if !res.out.failed() {
        let shapes = [Regime::Up, Regime::Down, Regime::Extremes, Regime::Flat, Regime::Walk, Regime::Stair, Regime::ZeroMix, Regime::PlateauSweep];
        let pairs = orderings(&shapes, 2);
        let (periods, seglen): (Vec<usize>, usize) = if th {
            let mut p: Vec<usize> = (1..=16).collect();
            p.extend([31, 32, 33, 63, 64, 65, 127, 128, 129, 255, 256, 257, 511, 512]);
            (p, 500_000)
        } else {
            (vec![1, 2, 5, 14, 64, 257], 20_000)
        };
        let mut jobs: Vec<(Cfg, Vec<Regime>, usize, Variant)> = vec![];
        for k in ALL_KINDS {
            for &p in &periods {
                if k.nperiods() == 0 && p != periods[0] {
                    continue;
                }
                let cfg = Cfg::of(k, &[p, (p % 5) + 2, (p % 3) + 2], 2.0);
                let linear = matches!(k, Kind::Mad | Kind::Cci | Kind::Er);
                for (pi, pair) in pairs.iter().enumerate() {
                    let mut l = seglen;
                    if linear && p > 16 {
                        l = (seglen * 16 / p).max(2000);
                        if pi % 6 != 0 {
                            continue;
                        }
                    }
                    if th && p > 16 && pi % 3 != 0 && !linear {
                        continue;
                    }
                    jobs.push((cfg, pair.clone(), l, Variant::Plain));
                    // variants on every 4th pair: reset-and-refill sessions, a NaN, a serde round trip
                    if pi % 4 == 0 {
                        for v in [Variant::ResetEvery(10), Variant::ResetEvery(2 * p + 1), Variant::ResetOnce, Variant::CloneFromBigger, Variant::ReplaceEvery(l / 8 + 1, true), Variant::ReplaceEvery(l / 8 + 3, false), Variant::OneNan, Variant::NanBurst, Variant::InfRun, Variant::SerdeAfterWarmup, Variant::HugePair] {
                            jobs.push((cfg, pair.clone(), l, v));
                        }
                        if k.has_scalar() {
                            jobs.push((cfg, pair.clone(), l, Variant::MixedPaths));
                        }
                    }
                }
            }
        }
        jobs.sort_by_key(|j| std::cmp::Reverse(j.2 * if matches!(j.0.kind, Kind::Mad | Kind::Cci | Kind::Er) { j.0.p[0] } else { 1 }));
        res.extra.insert("long_runs".into(), json!(jobs.len()));
        let chunks: Vec<&[(Cfg, Vec<Regime>, usize, Variant)]> = jobs.chunks(4).collect();
        let outs = par_run(ctx, &chunks, |_, chunk| {
            let mut out = JobOut::default();
            for (cfg, pair, l, v) in chunk.iter() {
                if ctx.out_of_time() {
                    out.stats.capped.push("time cap in long runs".into());
                    break;
                }
                long_job(cfg, pair, *l, ctx.seed, *v, &mut out);
                if out.failed() {
                    break;
                }
            }
            out
        });
        res.absorb(merge_jobs(outs));
    }
    // Default::default() instances: the bound follows from the parameters the instance REPORTS
    if !res.out.failed() {
        let kinds: Vec<Kind> = ALL_KINDS.to_vec();
        let outs = par_run(ctx, &kinds, |_, &k| {
            let mut out = JobOut::default();
            let mut cfg = k.default_cfg();
            let rep = std::panic::catch_unwind(|| {
                let d = crate::subjects::make_default(k);
                (d.period(), d.multiplier())
            });
            match rep {
                Ok((p, m)) => {
                    if let Some(p) = p {
                        cfg.p[0] = p;
                    }
                    if let Some(m) = m {
                        cfg.mult = m;
                    }
                    for pair in [[Regime::Walk, Regime::Flat], [Regime::Stair, Regime::Up]] {
                        long_job(&cfg, &pair, if th { 200_000 } else { 20_000 }, ctx.seed, Variant::DefaultInstance, &mut out);
                    }
                }
                Err(_) => out.fail(Violation::new(PROP, &cfg, &[], "panic").obs("Default::default() panicked".into()).exp("an instance".into())),
            }
            out
        });
        res.absorb(merge_jobs(outs));
    }
    // self-test of the allocator instrumentation (vacuity guard)
    {
        let h0 = heap::live();
        let v: Vec<u8> = Vec::with_capacity(10_000);
        let h1 = heap::live();
        drop(v);
        let h2 = heap::live();
        res.require(h1 - h0 >= 10_000 && h2 == h0, "counting allocator does not observe allocations");
    }
    res.exhaustive = false;
    res.rule = "case = (configuration, stream): (a) bincode length of the real object in every state of every short sequence; (b) long generated streams (every ordered pair of shape segments): serialized length at checkpoints and live heap bytes of the executing thread (counting global allocator) after warm-up vs after every segment; both must stay <= 256 + 64*sum(periods); non-trivial = state beyond the first window / long run".into();
    res.bounds = format!("(a) all 22 indicators, periods 1..4, all sequences over 3 symbols + reset up to depth min(3n+3, {}); (b) periods {} x all 64 ordered pairs of {{up, down, alternating extremes, flat, LCG walk, stair, zero-mix (0.0 / -0.0 / small signed values), plateau sweep (alternating extremes held for 80, 79, ... 1 inputs, then a zig-zag)}} x segment length {} (O(n)-per-step subjects shortened and thinned); every 4th pair additionally with reset() every 10 / 2n+1 inputs, with a single reset() after warm-up, replaced by its clone / by a restored copy eight times per segment, copied with clone_from into an instance of 8x larger periods, with one NaN input after warm-up, with NaN, NaN, an ordinary input and +inf after warm-up, with 3000 inputs of -inf and 3000 of +inf after warm-up, with two inputs of magnitude 1e154 (overflowing products), continued on a bincode-restored copy, and (indicators with a scalar path) with bars and scalars fed to the same instance in turn; Default::default() instances of all 22 indicators against the bound of the parameters they report", if th { 13 } else { 10 }, if th { "1..16, 31..33, 63..65, 127..129, 255..257, 511, 512" } else { "1, 2, 5, 14, 64, 257" }, if th { 500_000 } else { 20_000 });
    res.assumptions = vec!["systematically enumerated family of stream shapes, not all streams".into(), "live heap is measured per thread: memory handed to another thread would not be seen (the crate spawns no threads)".into()];
    res
}
