//! C08 - flat or zero-flow windows give finite, neutral outputs - never NaN or garbage.

use crate::engine::*;
use crate::report::CheckResult;
use crate::subjects::{make, Cfg, Kind, ALL_KINDS};
use crate::types::*;
use serde_json::json;

pub const PROP: &str = "C08";

#[derive(Clone, Copy, PartialEq, Debug)]
enum Stretch {
    /// scalar level repeated (scalar path)
    Scalar,
    /// one-price bar repeated (volume 1)
    OnePriceBar,
    /// the same non-trivial bar repeated (typical price constant, range non-zero)
    SameBar,
    /// zero volume, prices moving
    ZeroVolume,
    /// the level alternately as a scalar and as a one-price bar on the same instance
    Alternating,
    /// zeros of both signs (0.0 == -0.0: a flat window at level 0), as scalars or as bars with
    /// high = 0.0, low = -0.0
    SignedZeros,
}

fn stretch_op(kind: Stretch, level: f64, j: usize) -> Op {
    match kind {
        Stretch::Scalar => Op::S(level),
        Stretch::OnePriceBar => Op::B(Bar { o: level, h: level, l: level, c: level, v: 1.0 }),
        Stretch::SignedZeros => {
            let z = if j % 2 == 0 { 0.0 } else { -0.0 };
            if level > 0.0 {
                Op::S(z)
            } else {
                Op::B(Bar { o: z, h: 0.0, l: -0.0, c: z, v: 1.0 })
            }
        }
        Stretch::Alternating => {
            if j % 2 == 0 {
                Op::S(level)
            } else {
                Op::B(Bar { o: level, h: level, l: level, c: level, v: 1.0 })
            }
        }
        Stretch::SameBar => Op::B(Bar { o: level, h: level * 1.5, l: level * 0.5, c: level, v: 2.0 }),
        Stretch::ZeroVolume => {
            let p = level * (1.0 + (j % 3) as f64 * 0.25);
            Op::B(Bar { o: p, h: p * 1.25, l: p * 0.75, c: p, v: 0.0 })
        }
    }
}

/// Which stretch kinds make the window of `kind` degenerate, and from which
/// stretch step on (w = number of trailing stretch inputs needed).
fn plan(cfg: &Cfg) -> Vec<(Stretch, usize)> {
    let n = cfg.p[0];
    let mut v = vec![];
    let w = match cfg.kind {
        Kind::Sma | Kind::Wma | Kind::Sd | Kind::Mad | Kind::Min | Kind::Max | Kind::FastStoch | Kind::Bb | Kind::Cci => n,
        Kind::Roc | Kind::Er | Kind::Mfi => n + 1,
        // no window: degenerate as soon as the last change is zero
        _ => 2,
    };
    if cfg.kind.has_scalar() {
        v.push((Stretch::Scalar, w));
        v.push((Stretch::Alternating, w));
    }
    // a flat window at level zero (ROC and PPO divide by the level itself: 0/0 is the formula's own
    // singularity there, not a flat-window matter)
    if !matches!(cfg.kind, Kind::Roc | Kind::Ppo) {
        v.push((Stretch::SignedZeros, w));
    }
    v.push((Stretch::OnePriceBar, w));
    match cfg.kind {
        // typical price constant although high != low: flat for TP-based kinds
        Kind::Cci | Kind::Mfi => v.push((Stretch::SameBar, w)),
        _ => {}
    }
    if matches!(cfg.kind, Kind::Mfi | Kind::Obv) {
        v.push((Stretch::ZeroVolume, w));
    }
    v
}

fn check_step(cfg: &Cfg, st: Stretch, t: usize, m: f64, o: &Out) -> Result<(), (String, String)> {
    for x in o.slice() {
        if !x.is_finite() {
            return Err(("non-finite".into(), "a finite value".into()));
        }
    }
    let v = o.v[0];
    let tau = tau(t);
    let flat_prices = st != Stretch::ZeroVolume;
    match cfg.kind {
        Kind::Rsi | Kind::SlowStoch | Kind::Mfi => {
            if !(v >= -1e-9 && v <= 100.0 + 1e-9) {
                return Err(("out-of-range".into(), "a value in [0, 100]".into()));
            }
        }
        Kind::Er => {
            if !(v >= -1e-9 && v <= 1.0 + 1e-9) {
                return Err(("out-of-range".into(), "a value in [0, 1]".into()));
            }
        }
        Kind::FastStoch if flat_prices => {
            if v != 50.0 {
                return Err(("not-neutral".into(), "exactly 50".into()));
            }
        }
        Kind::Cci if flat_prices => {
            if v != 0.0 {
                return Err(("not-neutral".into(), "exactly 0".into()));
            }
        }
        Kind::Roc if flat_prices => {
            if v != 0.0 {
                return Err(("not-neutral".into(), "exactly 0".into()));
            }
        }
        Kind::Tr if flat_prices => {
            if v != 0.0 {
                return Err(("not-neutral".into(), "exactly 0".into()));
            }
        }
        Kind::Mad if flat_prices => {
            if !(v.abs() <= tau * m) {
                return Err(("not-neutral".into(), format!("0 within tau(t)*M = {:.3e}", tau * m)));
            }
        }
        Kind::Sd if flat_prices => {
            if !(v.abs() <= tau.sqrt() * m) {
                return Err(("not-neutral".into(), format!("0 within sqrt(tau(t))*M = {:.3e}", tau.sqrt() * m)));
            }
        }
        Kind::Bb if flat_prices => {
            let tol = cfg.mult.abs().max(1.0) * tau.sqrt() * m;
            if !((o.v[1] - o.v[0]).abs() <= tol && (o.v[0] - o.v[2]).abs() <= tol) {
                return Err(("not-neutral".into(), format!("bands within max(1,|mult|)*sqrt(tau(t))*M = {:.3e} of the average", tol)));
            }
        }
        _ => {}
    }
    Ok(())
}

fn prefix_values() -> Vec<f64> {
    vec![2.0, 0.3, 1e6, 7.7, 1e9]
}

fn prefix_op(cfg: &Cfg, x: f64, st: Stretch, i: usize) -> Op {
    if st == Stretch::Scalar {
        Op::S(x)
    } else {
        let _ = cfg;
        Op::B(Bar { o: x, h: x * 1.5, l: x * 0.5, c: x * (0.75 + 0.25 * (i % 3) as f64), v: 1.0 + (i % 2) as f64 * 2.0 })
    }
}

fn check_cfg(ctx: &Ctx, cfg: &Cfg, dp: usize, stretch_len: usize) -> JobOut {
    let mut out = JobOut::default();
    let pv = prefix_values();
    let levels = [1.0, 0.1, 0.7, 3.3, 1e6, -1.0, -3.3];
    let mut prefixes: Vec<Vec<u8>> = vec![vec![]];
    // one extra symbol (index pv.len()) stands for reset(): the instance may have been re-used, with
    // activity before AND after the reset
    for_each_seq(pv.len() + 1, None, dp, |s| {
        prefixes.push(s.to_vec());
        true
    });
    for (st, w) in plan(cfg) {
        for pre in &prefixes {
            // flat from the very first input at extreme magnitudes (with an active prefix of ordinary size the
            // squares of the jump overflow f64, which is not a flat-window matter)
            let extreme: Vec<f64> = if pre.is_empty() { vec![1e200, 1e-200, 1e300, 1e-307, 3e-308, 1.5e-323] } else { vec![] };
            for (&level, via, cross) in levels.iter().chain(extreme.iter()).flat_map(|l| [(l, Via::Plain, false), (l, Via::Serde, false), (l, Via::Clone, false), (l, Via::CloneFromUsed, false), (l, Via::CloneFromBigger, false), (l, Via::Chain, false), (l, Via::Plain, true)]) {
                // via: the instance is serialized + restored / replaced by its clone between prefix and
                // stretch (short prefixes only)
                if via != Via::Plain && pre.len() > 1 {
                    continue;
                }
                // cross: the active prefix arrives through the OTHER input path of the same instance
                // (bars before a scalar stretch, scalars before a one-price-bar stretch)
                if cross && (pre.is_empty() || !cfg.kind.has_scalar() || !matches!(st, Stretch::Scalar | Stretch::OnePriceBar | Stretch::Alternating | Stretch::SignedZeros)) {
                    continue;
                }
                if st == Stretch::SignedZeros && !(level == 1.0 && cfg.kind.has_scalar() || level == -1.0) {
                    continue;
                }
                // PPO divides by its slow average: a stream that changes sign drives that average through 0,
                // which is a singularity of the formula, not a flat-window matter (C03 restricts PPO to positive prices)
                if level < 0.0 && cfg.kind == Kind::Ppo {
                    continue;
                }
                if ctx.out_of_time() {
                    out.stats.capped.push(format!("time cap in {}", cfg.descr()));
                    return out;
                }
                let pst = if !cross { if st == Stretch::Alternating { Stretch::Scalar } else if st == Stretch::SignedZeros { if level > 0.0 { Stretch::Scalar } else { Stretch::OnePriceBar } } else { st } } else if st == Stretch::Scalar { Stretch::OnePriceBar } else if st == Stretch::Alternating { Stretch::OnePriceBar } else { Stretch::Scalar };
                let mut ops: Vec<Op> = pre.iter().enumerate().map(|(i, &a)| if a as usize == pv.len() { Op::Reset } else { prefix_op(cfg, pv[a as usize], pst, i) }).collect();
                let plen = ops.len();
                // t and M restart at the last reset()
                let tbase = since_reset(&ops).len();
                let mut m = since_reset(&ops).iter().map(|o| o.maxmag()).fold(0.0, f64::max);
                out.stats.traces += 1;
                out.stats.states += 1;
                let r = std::panic::catch_unwind(std::panic::AssertUnwindSafe(|| {
                    let mut s = make(cfg);
                    for op in &ops {
                        s.apply(op);
                    }
                    s = apply_via(cfg, s, via);
                    let mut res: Vec<Out> = Vec::with_capacity(stretch_len);
                    let mut sops: Vec<Op> = Vec::with_capacity(stretch_len);
                    for j in 0..stretch_len {
                        let op = stretch_op(st, level, j);
                        res.push(s.apply(&op));
                        sops.push(op);
                    }
                    (res, sops)
                }));
                let (res, sops) = match r {
                    Ok(x) => x,
                    Err(_) => {
                        out.fail(Violation::new(PROP, cfg, &ops, "panic").obs("panic".into()).exp("a finite value".into()));
                        return out;
                    }
                };
                out.stats.transitions += (plen + stretch_len) as u64;
                for j in 0..stretch_len {
                    m = m.max(sops[j].maxmag());
                    let t = tbase + j + 1;
                    // the reference window is degenerate once min(t, w) trailing inputs are flat
                    let need = w.min(t);
                    if j + 1 < need {
                        out.stats.skipped += 1;
                        continue;
                    }
                    out.stats.evaluations += 1;
                    if plen > 0 {
                        out.stats.nontrivial += 1;
                    }
                    out.stats.seen_output(&res[j]);
                    if let Err((class, exp)) = check_step(cfg, st, t, m, &res[j]) {
                        ops.extend_from_slice(&sops[..=j]);
                        out.fail(
                            Violation::new(PROP, cfg, &ops, &class)
                                .obs(out2s(&res[j]))
                                .exp(exp)
                                .det(format!("{:?} stretch at level {} : step {} of the stretch after a {}-op active prefix{} (window degenerate)", st, level, j + 1, plen, if via == Via::Plain { String::new() } else { format!("; then the instance was {}", via.text()) })),
                        );
                        return out;
                    }
                }
            }
        }
    }
    out.stats.sample(|| format!("{}: {} prefixes x 5 levels x stretch of {} steps, kinds {:?}", cfg.descr(), prefixes.len(), stretch_len, plan(cfg).iter().map(|p| p.0).collect::<Vec<_>>()));
    out
}

/// Level sweep: "every flat price level" - all two-decimal prices 0.01..=20.00 plus 2000
/// log-uniform levels in [1e-3, 1e6] (LCG, seeded), after an empty and a short active prefix.
/// Catches neutral values that are exact only for "nice" levels (e.g. 100*x/x - 100).
fn level_sweep(ctx: &Ctx, cfg: &Cfg) -> JobOut {
    let mut out = JobOut::default();
    let mut levels: Vec<f64> = (1..=2000).map(|k| k as f64 / 100.0).collect();
    let mut lcg = crate::alpha::Lcg::new(ctx.seed ^ 0xC08);
    for _ in 0..2000 {
        levels.push(10f64.powf(-3.0 + 9.0 * lcg.unit()));
    }
    let prefixes: [&[f64]; 2] = [&[], &[2.0, 7.7]];
    for (st, w) in plan(cfg) {
        if st == Stretch::SignedZeros {
            continue;
        }
        if st == Stretch::ZeroVolume {
            continue;
        }
        let len = w + 3;
        for pre in prefixes {
            for &level in &levels {
                let mut ops: Vec<Op> = pre.iter().enumerate().map(|(i, x)| prefix_op(cfg, *x, st, i)).collect();
                let plen = ops.len();
                for j in 0..len {
                    ops.push(stretch_op(st, level, j));
                }
                out.stats.traces += 1;
                out.stats.states += 1;
                out.stats.transitions += ops.len() as u64;
                let r = std::panic::catch_unwind(std::panic::AssertUnwindSafe(|| {
                    let mut s = make(cfg);
                    ops.iter().map(|op| s.apply(op)).collect::<Vec<Out>>()
                }));
                let res = match r {
                    Ok(x) => x,
                    Err(_) => {
                        out.fail(Violation::new(PROP, cfg, &ops, "panic").obs("panic".into()).exp("a finite value".into()));
                        return out;
                    }
                };
                let mut m = 0.0f64;
                for (i, op) in ops.iter().enumerate() {
                    m = m.max(op.maxmag());
                    if i < plen {
                        continue;
                    }
                    let j = i - plen;
                    let t = i + 1;
                    if j + 1 < w.min(t) {
                        continue;
                    }
                    out.stats.evaluations += 1;
                    out.stats.nontrivial += 1;
                    if let Err((class, exp)) = check_step(cfg, st, t, m, &res[i]) {
                        out.fail(Violation::new(PROP, cfg, &ops[..=i], &class).obs(out2s(&res[i])).exp(exp).det(format!("level sweep: {:?} stretch at level {} : step {} of the stretch after a {}-input prefix", st, level, j + 1, plen)));
                        return out;
                    }
                }
            }
        }
    }
    out
}

pub fn run(ctx: &Ctx) -> CheckResult {
    let mut res = CheckResult::new(PROP, "model_checking");
    let th = ctx.tier_thorough;
    let mut jobs: Vec<(Cfg, usize, usize)> = vec![];
    for k in ALL_KINDS {
        let expo = matches!(k, Kind::Ema | Kind::Rsi | Kind::Atr | Kind::Macd | Kind::Ppo | Kind::Kc | Kind::Ce | Kind::SlowStoch);
        for n in 1..=8usize {
            let cfg = match k.nperiods() {
                0 => {
                    if n > 1 {
                        continue;
                    }
                    Cfg::p0(k)
                }
                1 => {
                    if k.has_mult() {
                        Cfg::pm(k, n, 2.0)
                    } else {
                        Cfg::p1(k, n)
                    }
                }
                2 => Cfg::p2(k, n, 1 + n % 3),
                _ => Cfg::p3(k, n, n + 1, 1 + n % 3),
            };
            let (dp, len) = if th {
                (if expo && n <= 3 { 3 } else { 4 }, if expo { 6000 } else { 600 })
            } else {
                (if expo && n <= 3 { 3 } else { 4 }, if expo && n <= 3 { 1300 } else { 64 })
            };
            jobs.push((cfg, dp, len));
        }
    }
    jobs.sort_by_key(|j| std::cmp::Reverse(j.2 * 5usize.pow(j.1 as u32)));
    let outs = par_run(ctx, &jobs, |_, (cfg, dp, len)| check_cfg(ctx, cfg, *dp, *len));
    res.absorb(merge_jobs(outs));
    if !res.out.failed() {
        let sweep: Vec<Cfg> = jobs.iter().map(|j| j.0).filter(|c| c.max_period() <= 3).collect();
        let outs = par_run(ctx, &sweep, |_, cfg| level_sweep(ctx, cfg));
        res.extra.insert("level_sweep_configurations".into(), json!(sweep.len()));
        res.absorb(merge_jobs(outs));
    }
    // medium periods: a tick-grid walk of 3n + k inputs (k = 0..3: the stretch starts at different ring
    // phases), then a flat stretch of 2n + 3 inputs at levels inside and outside the walk's range
    if !res.out.failed() {
        let mut med: Vec<Cfg> = vec![];
        for k in ALL_KINDS {
            for &n in if th { &[9usize, 12, 14, 20, 26, 33][..] } else { &[9usize, 14, 20, 33][..] } {
                med.push(match k.nperiods() {
                    0 => continue,
                    1 => {
                        if k.has_mult() {
                            Cfg::pm(k, n, 2.0)
                        } else {
                            Cfg::p1(k, n)
                        }
                    }
                    2 => Cfg::p2(k, n, 3),
                    _ => Cfg::p3(k, n, 2 * n + 1, 9),
                });
            }
        }
        let outs = par_run(ctx, &med, |_, cfg| {
            let mut out = JobOut::default();
            let n = cfg.max_period();
            for (st, w) in plan(cfg) {
                if !matches!(st, Stretch::Scalar | Stretch::OnePriceBar) {
                    continue;
                }
                let bars = st != Stretch::Scalar;
                for k in 0..4usize {
                    let pre = super::refcmp::tick_walk(3 * n + k, ctx.seed ^ 0x8, bars, true, false);
                    for level in [1.0, 10.25, 33.25, 1e6] {
                        let stretch_len = 2 * n + 3;
                        let r = std::panic::catch_unwind(std::panic::AssertUnwindSafe(|| {
                            let mut s = make(cfg);
                            for op in pre.iter() {
                                s.apply(op);
                            }
                            (0..stretch_len).map(|j| s.apply(&stretch_op(st, level, j))).collect::<Vec<Out>>()
                        }));
                        out.stats.traces += 1;
                        out.stats.states += 1;
                        out.stats.transitions += (pre.len() + stretch_len) as u64;
                        let res = match r {
                            Ok(x) => x,
                            Err(_) => {
                                out.fail(Violation::new(PROP, cfg, &pre[..], "panic").obs("panic".into()).exp("a finite value".into()));
                                return out;
                            }
                        };
                        let mut m = pre.iter().map(|o| o.maxmag()).fold(0.0, f64::max).max(level);
                        for j in 0..stretch_len {
                            if j + 1 < w {
                                continue;
                            }
                            m = m.max(level);
                            out.stats.evaluations += 1;
                            out.stats.nontrivial += 1;
                            if let Err((class, exp)) = check_step(cfg, st, pre.len() + j + 1, m, &res[j]) {
                                let mut ops = pre.as_ref().clone();
                                ops.extend((0..=j).map(|i| stretch_op(st, level, i)));
                                out.fail(Violation::new(PROP, cfg, &ops, &class).obs(out2s(&res[j])).exp(exp).det(format!("{:?} stretch at level {} : step {} of the stretch after a tick-grid walk of {} inputs (window degenerate)", st, level, j + 1, pre.len())));
                                return out;
                            }
                        }
                    }
                }
            }
            out
        });
        res.absorb(merge_jobs(outs));
    }
    // long horizon: the flat stretch arrives after 2^22+4096 inputs on the same instance (periodic maintenance
    // code - "rebuild the moments every 2^22 updates" - has run by then)
    if !res.out.failed() {
        let h = super::refcmp::horizon_len(th);
        let ws = super::refcmp::tick_walk(h, ctx.seed ^ 0x88, false, true, false);
        let wb = super::refcmp::tick_walk(h, ctx.seed ^ 0x88, true, true, false);
        let hz: Vec<Cfg> = vec![Cfg::p1(Kind::Sd, 20), Cfg::pm(Kind::Bb, 20, 2.0), Cfg::p1(Kind::Mad, 20), Cfg::p1(Kind::Sma, 20), Cfg::p1(Kind::Wma, 9), Cfg::p1(Kind::FastStoch, 14), Cfg::p1(Kind::Cci, 20), Cfg::p1(Kind::Roc, 10), Cfg::p1(Kind::Er, 10), Cfg::p1(Kind::Mfi, 14), Cfg::p2(Kind::SlowStoch, 14, 3)];
        let outs = par_run(ctx, &hz, |_, cfg| {
            let mut out = JobOut::default();
            let n = cfg.max_period();
            for (st, w) in plan(cfg) {
                if !matches!(st, Stretch::Scalar | Stretch::OnePriceBar) {
                    continue;
                }
                let pre: &[Op] = if st == Stretch::Scalar { &ws[..] } else { &wb[..] };
                let stretch_len = 2 * n + 3;
                let levels = [10.25, 1e6];
                let r = std::panic::catch_unwind(std::panic::AssertUnwindSafe(|| {
                    let mut s = make(cfg);
                    for op in pre.iter() {
                        s.apply(op);
                    }
                    levels.iter().map(|&level| {
                        let mut c = s.dup();
                        (0..stretch_len).map(|j| c.apply(&stretch_op(st, level, j))).collect::<Vec<Out>>()
                    }).collect::<Vec<Vec<Out>>>()
                }));
                out.stats.traces += 1;
                out.stats.states += 2;
                out.stats.transitions += (pre.len() + 2 * stretch_len) as u64;
                let res = match r {
                    Ok(x) => x,
                    Err(_) => {
                        out.fail(Violation::new(PROP, cfg, &pre[h - 64..], "panic").obs("panic".into()).exp("a finite value".into()));
                        return out;
                    }
                };
                for (li, &level) in levels.iter().enumerate() {
                    let m = pre.iter().map(|o| o.maxmag()).fold(0.0, f64::max).max(level);
                    for j in 0..stretch_len {
                        if j + 1 < w {
                            continue;
                        }
                        out.stats.evaluations += 1;
                        out.stats.nontrivial += 1;
                        if let Err((class, exp)) = check_step(cfg, st, pre.len() + j + 1, m, &res[li][j]) {
                            let mut ops: Vec<Op> = pre[h - 64..].to_vec();
                            ops.extend((0..=j).map(|i| stretch_op(st, level, i)));
                            out.fail(Violation::new(PROP, cfg, &ops, &class).obs(out2s(&res[li][j])).exp(exp).det(format!("{:?} stretch at level {} : step {} of the stretch after a tick-grid walk of {} inputs on the same instance (window degenerate); ops shown = the last 64 inputs of the walk and the stretch", st, level, j + 1, pre.len())));
                            return out;
                        }
                    }
                }
            }
            out
        });
        res.extra.insert("long_horizon_steps".into(), json!(h));
        res.absorb(merge_jobs(outs));
    }
    res.extra.insert("configurations".into(), json!(jobs.len()));
    res.rule = "case = (configuration, active prefix, stretch kind, flat level, step of the stretch); the real output at every step whose reference window is degenerate (min(t,w) trailing inputs flat / zero-flow) must be finite, inside the documented range, and equal the documented neutral value where one is defined; non-trivial = non-empty active prefix".into();
    res.bounds = format!(
        "all 22 indicators, periods 1..8; every active prefix over {{2, 0.3, 1e6, 7.7, 1e9}} up to depth {}, reset() being one of the prefix symbols, prefixes of length <= 1 also followed by a serde round trip / clone, and each prefix also fed through the other input path (bars before a scalar stretch and vice versa) (exponential-memory kinds at periods 1..3: {}), levels {{1, 0.1, 0.7, 3.3, 1e6, -1, -3.3}} (and 1e200, 1e-200, 1e300, 1e-307, 3e-308 and the subnormal 1.5e-323 for streams flat from the start), stretch kinds scalar / one-price bar / both alternating on one instance / zeros of both signs / same bar (CCI, MFI) / zero volume (MFI, OBV), every stretch length 1..{} ({} for exponential-memory kinds{}); periods 9, 14, 20, 33 after tick-grid walks of 3n..3n+3 inputs; flat stretches after a tick-grid walk of 2^22+4096 (2^23+4096) inputs on one instance; level sweep for periods 1..3: all two-decimal prices 0.01..20.00 and 2000 log-uniform levels in [1e-3, 1e6]",
        4,
        3,
        if th { 600 } else { 64 },
        if th { 6000 } else { 1300 },
        if th { "" } else { " at periods 1..3" }
    );
    res
}
