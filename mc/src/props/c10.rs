//! C10 - feeding a bar equals feeding its documented price field; other fields ignored.

use crate::alpha::*;
use crate::engine::*;
use crate::report::CheckResult;
use crate::subjects::{make, Cfg, Kind, ALL_KINDS};
use crate::types::*;
use serde_json::json;
use ta::DataItem;

pub const PROP: &str = "C10";

#[derive(Clone, Copy, PartialEq, Debug)]
enum Field {
    O,
    H,
    L,
    C,
    V,
}
const FIELDS: [Field; 5] = [Field::O, Field::H, Field::L, Field::C, Field::V];

fn documented(kind: Kind) -> &'static [Field] {
    match kind {
        Kind::Min => &[Field::L],
        Kind::Max => &[Field::H],
        Kind::FastStoch | Kind::SlowStoch | Kind::Tr | Kind::Atr | Kind::Kc | Kind::Ce | Kind::Cci => &[Field::H, Field::L, Field::C],
        Kind::Mfi => &[Field::H, Field::L, Field::C, Field::V],
        Kind::Obv => &[Field::C, Field::V],
        _ => &[Field::C],
    }
}

fn set(b: &mut Bar, f: Field, x: f64) {
    match f {
        Field::O => b.o = x,
        Field::H => b.h = x,
        Field::L => b.l = x,
        Field::C => b.c = x,
        Field::V => b.v = x,
    }
}
fn get(b: &Bar, f: Field) -> f64 {
    match f {
        Field::O => b.o,
        Field::H => b.h,
        Field::L => b.l,
        Field::C => b.c,
        Field::V => b.v,
    }
}

/// scalar equivalent of a bar for kinds whose bar path is "Next<f64> on one field"
fn scalar_field(kind: Kind) -> Option<Field> {
    match kind {
        Kind::Min => Some(Field::L),
        Kind::Max => Some(Field::H),
        k if !k.bar_native() && k.has_scalar() => Some(Field::C),
        _ => None,
    }
}

fn run_all(cfg: &Cfg, f: impl Fn(&mut dyn crate::subjects::Subject, usize) -> Out, len: usize) -> Result<Vec<Out>, ()> {
    std::panic::catch_unwind(std::panic::AssertUnwindSafe(|| {
        let mut s = make(cfg);
        (0..len).map(|i| f(s.as_mut(), i)).collect::<Vec<Out>>()
    }))
    .map_err(|_| ())
}

fn first_diff(a: &[Out], b: &[Out]) -> Option<usize> {
    (0..a.len()).find(|&i| !out_rel_eq(&a[i], &b[i], 1e-12))
}

fn check_seq(cfg: &Cfg, bars: &[Bar], out: &mut JobOut) {
    let len = bars.len();
    let ops: Vec<Op> = bars.iter().map(|b| Op::B(*b)).collect();
    let base = match run_all(cfg, |s, i| s.next_b(&bars[i]), len) {
        Ok(o) => o,
        Err(_) => {
            out.fail(Violation::new(PROP, cfg, &ops, "panic").obs("panic".into()).exp("outputs".into()));
            return;
        }
    };
    out.stats.traces += 1;
    out.stats.transitions += len as u64;
    out.stats.seen_output(&base[len - 1]);
    // (i) bar path == scalar path on the documented field
    if let Some(f) = scalar_field(cfg.kind) {
        if let Ok(sc) = run_all(cfg, |s, i| s.next_s(get(&bars[i], f)), len) {
            out.stats.evaluations += 1;
            out.stats.transitions += len as u64;
            if let Some(i) = first_diff(&base, &sc) {
                out.fail(
                    Violation::new(PROP, cfg, &ops[..=i], "bar-differs-from-scalar")
                        .obs(out2s(&base[i]))
                        .exp(out2s(&sc[i]))
                        .det(format!("Next<&T> differs from Next<f64> on the documented field {:?}", f)),
                );
                return;
            }
        }
    }
    // (iii) perturb undocumented fields: all at once and one at a time, finite and NaN
    let doc = documented(cfg.kind);
    let undocumented: Vec<Field> = FIELDS.iter().copied().filter(|f| !doc.contains(f)).collect();
    let mut variants: Vec<(String, Vec<Bar>)> = vec![];
    for (vi, val) in [(0usize, None), (1, Some(f64::NAN))] {
        let all: Vec<Bar> = bars
            .iter()
            .enumerate()
            .map(|(i, b)| {
                let mut x = *b;
                for f in &undocumented {
                    set(&mut x, *f, val.unwrap_or(get(b, *f) * 3.0 + 11.0 + i as f64));
                }
                x
            })
            .collect();
        variants.push((format!("all undocumented fields {:?} replaced ({})", undocumented, if vi == 0 { "finite" } else { "NaN" }), all));
    }
    for f in &undocumented {
        let one: Vec<Bar> = bars
            .iter()
            .enumerate()
            .map(|(i, b)| {
                let mut x = *b;
                set(&mut x, *f, -get(b, *f) * 0.5 + 0.125 + (i % 2) as f64 * 100.0);
                x
            })
            .collect();
        variants.push((format!("field {:?} replaced", f), one));
    }
    for (name, vb) in &variants {
        match run_all(cfg, |s, i| s.next_b(&vb[i]), len) {
            Ok(o) => {
                out.stats.evaluations += 1;
                out.stats.nontrivial += 1;
                out.stats.transitions += len as u64;
                if let Some(i) = first_diff(&base, &o) {
                    let vops: Vec<Op> = vb[..=i].iter().map(|b| Op::B(*b)).collect();
                    out.fail(
                        Violation::new(PROP, cfg, &vops, "undocumented-field-read")
                            .obs(out2s(&o[i]))
                            .exp(out2s(&base[i]))
                            .det(format!("{}: output changed although only fields the indicator is not documented to read differ; original bars [{}]", name, ops_text(&ops[..=i]))),
                    );
                    return;
                }
            }
            Err(_) => {
                out.fail(Violation::new(PROP, cfg, &ops, "panic").obs("panic".into()).exp("outputs".into()).det(name.clone()));
                return;
            }
        }
    }
    // (iv) another implementor storing integers and converting in its getters
    let milli: Vec<MilliBar> = bars
        .iter()
        .map(|b| MilliBar { o: (b.o * 1000.0) as i64, h: (b.h * 1000.0) as i64, l: (b.l * 1000.0) as i64, c: (b.c * 1000.0) as i64, v: (b.v * 1000.0) as i64 })
        .collect();
    if milli.iter().zip(bars.iter()).all(|(m, b)| m.to_bar() == *b) {
        if let Ok(o) = run_all(cfg, |s, i| s.next_milli(&milli[i]), len) {
            out.stats.evaluations += 1;
            out.stats.transitions += len as u64;
            if let Some(i) = first_diff(&base, &o) {
                out.fail(Violation::new(PROP, cfg, &ops[..=i], "implementor-dependent").obs(out2s(&o[i])).exp(out2s(&base[i])).det("a second implementor of the price traits carrying the same numbers gives a different output".into()));
            }
        }
    }
}

/// one-price bars vs scalar path (FastStoch, SlowStoch, TR, ATR, KC)
fn check_one_price(cfg: &Cfg, xs: &[f64], out: &mut JobOut) {
    let len = xs.len();
    let a = run_all(cfg, |s, i| s.next_b(&Bar { o: xs[i], h: xs[i], l: xs[i], c: xs[i], v: 1.0 }), len);
    let b = run_all(cfg, |s, i| s.next_s(xs[i]), len);
    out.stats.traces += 1;
    out.stats.transitions += 2 * len as u64;
    if let (Ok(a), Ok(b)) = (a, b) {
        out.stats.evaluations += 1;
        // KeltnerChannel: "within rounding of (x+x+x)/3" - absolute 1e-12 * largest magnitude
        let m = xs.iter().fold(0.0f64, |a, x| a.max(x.abs()));
        let diff = if cfg.kind == Kind::Kc {
            (0..a.len()).find(|&i| (0..3).any(|j| !(rel_eq(a[i].v[j], b[i].v[j], 1e-12) || (a[i].v[j] - b[i].v[j]).abs() <= 1e-12 * m * cfg.mult.abs().max(1.0))))
        } else {
            first_diff(&a, &b)
        };
        if let Some(i) = diff {
            let ops: Vec<Op> = xs[..=i].iter().map(|x| Op::S(*x)).collect();
            out.fail(Violation::new(PROP, cfg, &ops, "one-price-bar-differs-from-scalar").obs(out2s(&a[i])).exp(out2s(&b[i])).det("feeding bars with open=high=low=close=x differs from the scalar path on x".into()));
        }
    } else {
        let ops: Vec<Op> = xs.iter().map(|x| Op::S(*x)).collect();
        out.fail(Violation::new(PROP, cfg, &ops, "panic").obs("panic".into()).exp("outputs".into()));
    }
}

/// scalar inputs and one-price bars mixed on ONE instance (every assignment of the two paths to the
/// positions of the stream) vs the pure scalar path
fn check_mixed_paths(cfg: &Cfg, xs: &[f64], out: &mut JobOut) {
    let len = xs.len();
    let b = match run_all(cfg, |s, i| s.next_s(xs[i]), len) {
        Ok(b) => b,
        Err(()) => return, // reported by check_one_price
    };
    let m = xs.iter().fold(0.0f64, |a, x| a.max(x.abs()));
    for mask in 1u32..(1u32 << len) - 1 {
        let a = run_all(cfg, |s, i| if mask >> i & 1 == 1 { s.next_b(&Bar { o: xs[i], h: xs[i], l: xs[i], c: xs[i], v: 1.0 }) } else { s.next_s(xs[i]) }, len);
        out.stats.traces += 1;
        out.stats.transitions += len as u64;
        out.stats.evaluations += 1;
        let ops = |upto: usize| -> Vec<Op> { (0..=upto).map(|i| if mask >> i & 1 == 1 { Op::B(Bar { o: xs[i], h: xs[i], l: xs[i], c: xs[i], v: 1.0 }) } else { Op::S(xs[i]) }).collect() };
        match a {
            Ok(a) => {
                let diff = if cfg.kind == Kind::Kc {
                    (0..a.len()).find(|&i| (0..3).any(|j| !(rel_eq(a[i].v[j], b[i].v[j], 1e-12) || (a[i].v[j] - b[i].v[j]).abs() <= 1e-12 * m * cfg.mult.abs().max(1.0))))
                } else {
                    first_diff(&a, &b)
                };
                if let Some(i) = diff {
                    out.fail(Violation::new(PROP, cfg, &ops(i), "one-price-bar-differs-from-scalar").obs(out2s(&a[i])).exp(out2s(&b[i])).det("one instance fed a mix of scalars and one-price bars differs from the pure scalar path on the same prices".into()));
                    return;
                }
            }
            Err(()) => {
                out.fail(Violation::new(PROP, cfg, &ops(len - 1), "panic").obs("panic".into()).exp("outputs".into()));
                return;
            }
        }
    }
}

/// DataItem vs any other implementor carrying the same numbers (valid bars only)
fn check_dataitem(cfg: &Cfg, bars: &[Bar], out: &mut JobOut) {
    let items: Vec<DataItem> = bars.iter().map(|b| DataItem::builder().open(b.o).high(b.h).low(b.l).close(b.c).volume(b.v).build().expect("valid bar")).collect();
    let len = bars.len();
    let a = run_all(cfg, |s, i| s.next_di(&items[i]), len);
    let b = run_all(cfg, |s, i| s.next_b(&bars[i]), len);
    out.stats.traces += 1;
    out.stats.transitions += 2 * len as u64;
    if let (Ok(a), Ok(b)) = (a, b) {
        out.stats.evaluations += 1;
        if let Some(i) = first_diff(&a, &b) {
            let ops: Vec<Op> = bars[..=i].iter().map(|x| Op::B(*x)).collect();
            out.fail(Violation::new(PROP, cfg, &ops, "dataitem-differs").obs(out2s(&a[i])).exp(out2s(&b[i])).det("DataItem gives a different output than another implementor carrying the same numbers".into()));
        }
    }
}

/// DataItem values obtained through serde (no builder validation: any five numbers) vs another implementor
/// carrying the same numbers
fn check_dataitem_wire(cfg: &Cfg, bars: &[Bar], out: &mut JobOut) {
    let items: Vec<DataItem> = match bars.iter().map(|b| bincode::serialize(&(b.o, b.h, b.l, b.c, b.v)).ok().and_then(|bytes| bincode::deserialize::<DataItem>(&bytes).ok())).collect::<Option<Vec<DataItem>>>() {
        Some(v) => v,
        None => return,
    };
    let len = bars.len();
    let a = run_all(cfg, |s, i| s.next_di(&items[i]), len);
    let b = run_all(cfg, |s, i| s.next_b(&bars[i]), len);
    out.stats.traces += 1;
    out.stats.transitions += 2 * len as u64;
    if let (Ok(a), Ok(b)) = (a, b) {
        out.stats.evaluations += 1;
        if let Some(i) = first_diff(&a, &b) {
            let ops: Vec<Op> = bars[..=i].iter().map(|x| Op::B(*x)).collect();
            out.fail(Violation::new(PROP, cfg, &ops, "dataitem-differs").obs(out2s(&a[i])).exp(out2s(&b[i])).det("a deserialized DataItem gives a different output than another implementor carrying the same five numbers".into()));
        }
    }
}

/// Static side: build and run /verif/surface (user types implementing only the
/// price traits an indicator is documented to need).
fn surface(res: &mut CheckResult) {
    let dummy = Cfg::p0(Kind::Obv);
    let surface_dir = std::env::var("VERIF_SURFACE_DIR").unwrap_or_else(|_| "/verif/surface".to_string());
    let target_dir = std::env::var("CARGO_TARGET_DIR").unwrap_or_else(|_| "/verif/target".to_string());
    let build = std::process::Command::new("cargo")
        .args(["build", "--release", "--offline", "--manifest-path", &format!("{}/Cargo.toml", surface_dir)])
        .env("CARGO_TARGET_DIR", &target_dir)
        .env("CARGO_NET_OFFLINE", "true")
        .output();
    let build = match build {
        Ok(b) => b,
        Err(e) => {
            res.machinery_errors.push(format!("cannot run cargo for /verif/surface: {}", e));
            return;
        }
    };
    if !build.status.success() {
        let log = String::from_utf8_lossy(&build.stderr).to_string();
        let errs: Vec<&str> = log.lines().filter(|l| l.starts_with("error") || l.contains("-->") || l.contains("is not satisfied") || l.contains("not implemented")).take(12).collect();
        res.out.fail(
            Violation::new(PROP, &dummy, &[], "minimal-trait-type-rejected")
                .obs(errs.join(" | "))
                .exp("user types implementing only the documented price traits are accepted by Next<&T>".into())
                .det(format!("the crate /verif/surface no longer type-checks against /repo; full compiler output: {}", log.chars().take(4000).collect::<String>())),
        );
        return;
    }
    res.out.stats.add("surface_crate_built", 1);
    match std::process::Command::new(format!("{}/release/surface", target_dir)).output() {
        Ok(o) => {
            let text = String::from_utf8_lossy(&o.stdout).to_string();
            res.out.stats.add("surface_minimal_type_runs", 43);
            res.out.stats.evaluations += 43;
            if !o.status.success() {
                let fails: Vec<&str> = text.lines().filter(|l| l.starts_with("FAIL")).collect();
                res.out.fail(
                    Violation::new(PROP, &dummy, &[], "implementor-dependent")
                        .obs(fails.join(" | "))
                        .exp("a minimal-trait user type gives the same outputs as a five-trait type carrying the same numbers".into())
                        .det("reproduce with /verif/target/release/surface".into()),
                );
            }
        }
        Err(e) => res.machinery_errors.push(format!("cannot run surface binary: {}", e)),
    }
}

pub fn run(ctx: &Ctx) -> CheckResult {
    let mut res = CheckResult::new(PROP, "model_checking");
    let th = ctx.tier_thorough;
    let depth = if th { 6 } else { 5 };
    let free = b_free();
    let mut cfgs = vec![];
    for k in ALL_KINDS {
        cfgs.extend(generic_cfgs(k, &[1, 3], &[1, 3]).into_iter().filter(|c| c.kind.nperiods() < 2 || c.p[0] != c.p[1]));
    }
    let mut jobs: Vec<(Cfg, usize)> = vec![];
    for c in &cfgs {
        for a in 0..free.len() {
            jobs.push((*c, a));
        }
    }
    let outs = par_run(ctx, &jobs, |_, (cfg, first)| {
        let mut out = JobOut::default();
        let mut bars: Vec<Bar> = vec![];
        let mut n = 0u64;
        // only full-length sequences: every comparison is over all prefixes of the run
        for_each_seq_exact(free.len(), depth - 1, |seq| {
            n += 1;
            if n % 512 == 0 && ctx.out_of_time() {
                out.stats.capped.push(format!("time cap in {}", cfg.descr()));
                return false;
            }
            bars.clear();
            bars.push(free[*first]);
            bars.extend(seq.iter().map(|&a| free[a as usize]));
            out.stats.states += 1;
            check_seq(cfg, &bars, &mut out);
            out.stats.sample(|| format!("{} bars=[{}] vs scalar path, perturbed undocumented fields, integer-backed implementor", cfg.descr(), ops_text(&bars.iter().map(|b| Op::B(*b)).collect::<Vec<_>>())));
            !out.failed()
        });
        out
    });
    res.absorb(merge_jobs(outs));

    if !res.out.failed() {
        let xs = [1.0, 2.5, 0.1, 7.0, -3.0];
        let d1 = if th { 7 } else { 6 };
        let mut c2 = vec![];
        for n in [1usize, 2, 3, 5] {
            c2.push(Cfg::p1(Kind::FastStoch, n));
            c2.push(Cfg::p2(Kind::SlowStoch, n, 2));
            c2.push(Cfg::p1(Kind::Atr, n));
            c2.push(Cfg::pm(Kind::Kc, n, 2.0));
            // negative / zero multipliers are accepted as given (C11): both paths must treat them alike
            c2.push(Cfg::pm(Kind::Kc, n, -2.0));
            c2.push(Cfg::pm(Kind::Kc, n, 0.0));
        }
        c2.push(Cfg::p0(Kind::Tr));
        // second alphabet: prices one ulp apart and in a 1e-17 unit (spreads below f64::EPSILON)
        let xs2 = [1.0, 0.75, 0.7500000000000001, 2e-17, 3e-17];
        let outs = par_run(ctx, &c2, |_, cfg| {
            let mut out = JobOut::default();
            let mut v = vec![];
            // third alphabet: finite prices near the top of the f64 range (KeltnerChannel's bar path overflows
            // its typical price there: listed finding K5 of C02, not repeated here)
            let xs3 = [1e307, 9e307, 3e307, 5e307, 2e307];
            for (ai, alpha) in [&xs, &xs2, &xs3].into_iter().enumerate() {
                if ai == 2 && cfg.kind == Kind::Kc {
                    continue;
                }
                for_each_seq_exact(alpha.len(), if ai == 2 { d1 - 1 } else { d1 }, |seq| {
                    v.clear();
                    v.extend(seq.iter().map(|&a| alpha[a as usize]));
                    out.stats.states += 1;
                    check_one_price(cfg, &v, &mut out);
                    !out.failed()
                });
            }
            // both paths mixed on one instance: all 2^L - 2 assignments on the shorter streams
            if !out.failed() {
                for_each_seq_exact(xs.len(), d1 - 2, |seq| {
                    v.clear();
                    v.extend(seq.iter().map(|&a| xs[a as usize]));
                    out.stats.states += 1;
                    check_mixed_paths(cfg, &v, &mut out);
                    !out.failed()
                });
            }
            out
        });
        res.absorb(merge_jobs(outs));
    }
    if !res.out.failed() {
        // valid bars with distinct open and volume for DataItem
        let mut valid: Vec<Bar> = b_grid().iter().enumerate().map(|(i, b)| Bar { o: if i % 2 == 0 { b.l } else { b.h }, v: (i % 4) as f64 * 1.5, ..*b }).collect();
        // valid bars whose open / close sit within 1e-9 relative of an extreme without being equal to it
        valid.push(Bar { o: 99.99999995, h: 100.0, l: 90.0, c: 99.99999999999999, v: 1.0 });
        valid.push(Bar { o: 90.00000001, h: 100.0, l: 90.0, c: 90.00000000000001, v: 2.0 });
        let d2 = if th { 5 } else { 4 };
        let outs = par_run(ctx, &cfgs, |_, cfg| {
            let mut out = JobOut::default();
            let mut v = vec![];
            for_each_seq_exact(valid.len(), d2, |seq| {
                v.clear();
                v.extend(seq.iter().map(|&a| valid[a as usize]));
                out.stats.states += 1;
                check_dataitem(cfg, &v, &mut out);
                !out.failed()
            });
            out
        });
        res.absorb(merge_jobs(outs));
    }
    // DataItems that arrive through serde carry any five numbers (open / close outside [low, high], inverted
    // ranges): still "the same numbers" as a user type's
    if !res.out.failed() {
        let free = b_free();
        let d3 = if th { 4 } else { 3 };
        let outs = par_run(ctx, &cfgs, |_, cfg| {
            let mut out = JobOut::default();
            let mut v = vec![];
            for_each_seq_exact(free.len(), d3, |seq| {
                v.clear();
                v.extend(seq.iter().enumerate().map(|(i, &a)| {
                    let b = free[a as usize];
                    // opens outside the bar's range, on either side
                    Bar { o: if i % 2 == 0 { b.h + 1.5 } else { b.l - 2.5 }, ..b }
                }));
                out.stats.states += 1;
                check_dataitem_wire(cfg, &v, &mut out);
                !out.failed()
            });
            out
        });
        res.absorb(merge_jobs(outs));
    }
    // quiet closes (fast and slow averages within 1e-5 of each other): "within 1e-12 relative" is
    // demanding when the output itself is tiny
    if !res.out.failed() {
        let mut qc = vec![];
        for k in ALL_KINDS {
            qc.push(k.default_cfg());
            qc.extend(generic_cfgs(k, &[2, 5, 17, 20, 33], &[2, 5]).into_iter().filter(|c| c.kind.nperiods() < 2 || c.p[0] != c.p[1]));
        }
        let outs = par_run(ctx, &qc, |_, cfg| {
            let mut out = JobOut::default();
            if scalar_field(cfg.kind).is_none() {
                return out;
            }
            for pat in 0..3usize {
                let bars: Vec<Bar> = (0..160usize)
                    .map(|i| {
                        let w = match pat {
                            0 => ((i * 7) % 13) as f64 - 6.0,
                            1 => if i % 2 == 0 { 1.0 } else { -1.0 },
                            _ => ((i / 5) % 9) as f64 - 4.0,
                        };
                        let c = 100.0 * (1.0 + 1e-6 * w);
                        Bar { o: c * 0.5, h: c * 1.5 + i as f64, l: c * 0.25, c, v: 1.0 + (i % 3) as f64 }
                    })
                    .collect();
                out.stats.states += 1;
                check_seq(cfg, &bars, &mut out);
                if out.failed() {
                    break;
                }
            }
            // long directional legs (2n+3 bars up, 2n+3 down, on a 0.05 grid) with a small counter-move on every
            // bar k*n+1: "the whole window is one leg" shortcuts, ring-phase dependent look-backs
            if !out.failed() && cfg.max_period() <= 40 {
                let n = cfg.max_period().max(2);
                let leg = 2 * n + 3;
                let bars: Vec<Bar> = (0..14 * leg)
                    .map(|i| {
                        let ph = i % (2 * leg);
                        let tri = if ph < leg { ph } else { 2 * leg - ph };
                        let dip = if i % n == 1 { 0.02 } else { 0.0 };
                        let c = 40.0 + 0.05 * tri as f64 - if ph < leg { dip } else { -dip };
                        Bar { o: c * 0.5, h: c * 1.5, l: c * 0.25, c, v: 1.0 + (i % 3) as f64 }
                    })
                    .collect();
                out.stats.states += 1;
                check_seq(cfg, &bars, &mut out);
            }
            // one long stream of two-decimal prices with exactly flat stretches (a bar path that does its
            // own bookkeeping instead of forwarding drifts away from the scalar path only here)
            if !out.failed() && cfg.max_period() <= 40 {
                let len = if th { 200_000usize } else { 30_000 };
                let mut lcg = Lcg::new(ctx.seed ^ 0x5eed);
                let mut c = 57.23f64;
                let bars: Vec<Bar> = (0..len)
                    .map(|i| {
                        if i % 400 >= 30 {
                            c = 20.0 + (lcg.next_u64() % 9000) as f64 / 100.0;
                        }
                        Bar { o: c * 0.5, h: c * 1.5, l: c * 0.25, c, v: 1.0 + (i % 3) as f64 }
                    })
                    .collect();
                out.stats.states += 1;
                check_seq(cfg, &bars, &mut out);
            }
            out
        });
        res.absorb(merge_jobs(outs));
    }
    if !res.out.failed() {
        surface(&mut res);
    }
    res.extra.insert("documented_fields".into(), json!(ALL_KINDS.iter().map(|k| (k.name().to_string(), format!("{:?}", documented(*k)))).collect::<std::collections::BTreeMap<_, _>>()));
    res.rule = "case = (configuration, bar sequence): outputs of Next<&T> on bars whose five fields vary independently compared (1e-12 relative) with (i) Next<f64> on the documented field, (iii) the same sequence with every undocumented field replaced (all at once finite / NaN, and one at a time), (iv) a second implementor storing integers, and DataItem on valid bars; (ii) one-price bars vs scalar path; non-trivial = perturbation comparisons".into();
    res.bounds = format!("all 22 indicators, periods {{1,3}}; all 10^{depth} sequences over B_free (incl. zero and negative closes, highs, volumes); three 160-bar streams of quiet closes, a triangle wave with legs of 2n+3 bars and a counter-move on every bar k*n+1 (periods 2, 5, 17, 20, 33 and the defaults) (100*(1 +- a few 1e-6)) and one 30000 / 200000-bar stream of two-decimal prices with flat stretches for every close/low/high-reading indicator incl. the documented defaults; one-price: all 5^{} scalar sequences over {{1,2.5,0.1,7,-3}} over {{1, 0.75, 0.75+1ulp, 2e-17, 3e-17}} and (not KC) over {{1e307, 9e307, 3e307, 5e307, 2e307}} for FAST_STOCH/SLOW_STOCH/TR/ATR/KC (multipliers 2, -2, 0) n in {{1,2,3,5}}, and every assignment of {{scalar, one-price bar}} to the positions of all streams two steps shorter (both paths mixed on one instance); DataItem: all 12^{} sequences of valid bars (incl. open/close within 1e-9 of an extreme), and all sequences of length 3/4 over B_free with opens outside the range for DataItems obtained by deserialization", if th { 7 } else { 6 }, if th { 5 } else { 4 });
    res.assumptions = vec!["minimal-trait user types (CloseOnly, Hlc, ...) are compiled and run by the separate /verif/surface crate as part of this check".into()];
    res
}
