//! C03 - oscillators equal their documented formulas wherever these are well-conditioned.

use super::refcmp::*;
use crate::alpha::*;
use crate::engine::*;
use crate::report::CheckResult;
use crate::subjects::{Cfg, Kind};
use crate::types::*;
use serde_json::json;

pub const PROP: &str = "C03";

pub fn run(ctx: &Ctx) -> CheckResult {
    let mut res = CheckResult::new(PROP, "model_checking");
    let th = ctx.tier_thorough;
    let (d, db, dv) = if th { (10, 6, 5) } else { (8, 5, 4) };
    let pos = if th { s_ops(&S_POS5) } else { s_ops(&S_POS) };
    let grid = b_ops(&b_grid());
    let vol = b_ops(&b_vol());
    let mut spaces = vec![];
    for n in 1..=5usize {
        for k in [Kind::Rsi, Kind::FastStoch, Kind::Roc, Kind::Er] {
            spaces.push(Space { cfg: Cfg::p1(k, n), alphabet: with_reset(pos.clone()), depth: d, label: "S_pos+reset" });
        }
        spaces.push(Space { cfg: Cfg::p1(Kind::FastStoch, n), alphabet: with_reset(grid.clone()), depth: db, label: "B_grid+reset" });
        spaces.push(Space { cfg: Cfg::p1(Kind::Cci, n), alphabet: with_reset(grid.clone()), depth: db, label: "B_grid+reset" });
        spaces.push(Space { cfg: Cfg::p1(Kind::Mfi, n), alphabet: vol.clone(), depth: dv, label: "B_vol" });
    }
    // positive prices with one symbol 2.5e8 times larger: a big move that entered and left the window
    // must not leave residue in a (well-conditioned) later output
    // (inexact base values: integers are exactly representable next to the spike and would leave no residue)
    let mut spike = S_POS_X.to_vec();
    spike.push(2.5e8 + 0.3);
    let spike_ops = s_ops(&spike);
    for n in 1..=4usize {
        for k in [Kind::Rsi, Kind::FastStoch, Kind::Roc, Kind::Er] {
            spaces.push(Space { cfg: Cfg::p1(k, n), alphabet: spike_ops.clone(), depth: d - 1, label: "S_pos+spike" });
        }
    }
    // scalar and bar inputs mixed on the same instance
    let mixed: Vec<Op> = vec![Op::S(1.0), Op::B(Bar::hlc(2.0, 1.0, 2.0)), Op::S(4.0), Op::B(Bar::hlc(4.0, 1.0, 1.0)), Op::S(2.0), Op::B(Bar::hlc(4.0, 2.0, 4.0)), Op::Reset];
    for n in 1..=4usize {
        spaces.push(Space { cfg: Cfg::p1(Kind::FastStoch, n), alphabet: mixed.clone(), depth: d - 2, label: "mixed scalar/bar" });
        spaces.push(Space { cfg: Cfg::p2(Kind::SlowStoch, n, 2), alphabet: mixed.clone(), depth: d - 2, label: "mixed scalar/bar" });
        for k in [Kind::Rsi, Kind::Roc, Kind::Er] {
            spaces.push(Space { cfg: Cfg::p1(k, n), alphabet: mixed.clone(), depth: d - 2, label: "mixed scalar/bar" });
        }
    }
    // EMA periods of 2^32 and beyond inside RSI / PPO / SlowStochastic
    for &n in &[(1usize << 32) - 1, 1usize << 32, (1usize << 32) + 2, usize::MAX] {
        spaces.push(Space { cfg: Cfg::p1(Kind::Rsi, n), alphabet: pos.clone(), depth: d - 3, label: "huge period" });
        spaces.push(Space { cfg: Cfg::p3(Kind::Ppo, 12, n, 9), alphabet: pos.clone(), depth: d - 3, label: "huge period" });
        spaces.push(Space { cfg: Cfg::p3(Kind::Ppo, n, 26, n), alphabet: pos.clone(), depth: d - 3, label: "huge period" });
        spaces.push(Space { cfg: Cfg::p2(Kind::SlowStoch, 5, n), alphabet: pos.clone(), depth: d - 3, label: "huge period" });
    }
    // prices near the top of the f64 range (the formulas are scale-free; intermediate products are not)
    for n in 1..=3usize {
        for k in [Kind::Rsi, Kind::FastStoch, Kind::Roc] {
            spaces.push(Space { cfg: Cfg::p1(k, n), alphabet: s_ops(&S_HUGE), depth: d - 2, label: "S_huge" });
        }
        spaces.push(Space { cfg: Cfg::p3(Kind::Ppo, n, n + 1, 2), alphabet: s_ops(&S_HUGE), depth: d - 3, label: "S_huge" });
    }
    // MFI-specific alphabet with equal typical prices between different bars, deeper
    let mfi_bars = b_ops(&b_mfi());
    for n in 1..=4usize {
        spaces.push(Space { cfg: Cfg::p1(Kind::Mfi, n), alphabet: mfi_bars.clone(), depth: if th { 10 } else { 8 }, label: "B_mfi" });
    }
    // typical prices exactly 2 ulps apart (one-price bars at 1, 1 + 2^-51, 1 - 2^-51: close + high + low and its
    // third are exact, so "moved / did not move" is decidable and the flow is full size): a tolerance on
    // the direction test shows only here
    {
        let e = 2f64.powi(-51);
        let ulp_bars = b_ops(&[Bar::hlcv(1.0, 1.0, 1.0, 1.0), Bar::hlcv(1.0 + e, 1.0 + e, 1.0 + e, 2.0), Bar::hlcv(1.0 - e, 1.0 - e, 1.0 - e, 1.0), Bar::hlcv(2.0, 1.0, 2.0, 1.0), Bar::hlcv(1.5, 1.5, 1.5, 3.0)]);
        for n in 1..=3usize {
            spaces.push(Space { cfg: Cfg::p1(Kind::Mfi, n), alphabet: ulp_bars.clone(), depth: if th { 8 } else { 7 }, label: "B_mfi_ulp" });
        }
    }
    // MFI re-used through reset(): a full window (n+1 bars) before and after the reset
    let mfi_reset = with_reset(mfi_bars.clone());
    let mfi_reset4: Vec<Op> = with_reset(vec![mfi_bars[0], mfi_bars[2], mfi_bars[3]]);
    for n in 1..=(if th { 4usize } else { 3 }) {
        let depth = 2 * n + 3;
        let small = depth > 7 && !(th && n == 3);
        spaces.push(Space { cfg: Cfg::p1(Kind::Mfi, n), alphabet: if small { mfi_reset4.clone() } else { mfi_reset.clone() }, depth, label: "B_mfi+reset" });
    }
    // the same alphabets in a tiny price unit (2^-60): absolute epsilons / thresholds become visible
    let tiny_pos = with_reset(s_ops(&S_TINY));
    let tiny_grid = b_ops(&scale_bars(&b_grid(), TINY));
    let tiny_vol = b_ops(&scale_bars(&b_vol(), TINY));
    for n in 1..=4usize {
        for k in [Kind::Rsi, Kind::FastStoch, Kind::Roc, Kind::Er] {
            spaces.push(Space { cfg: Cfg::p1(k, n), alphabet: tiny_pos.clone(), depth: d - 2, label: "S_tiny+reset" });
        }
        spaces.push(Space { cfg: Cfg::p1(Kind::FastStoch, n), alphabet: tiny_grid.clone(), depth: db - 1, label: "B_grid_tiny" });
        spaces.push(Space { cfg: Cfg::p1(Kind::Cci, n), alphabet: tiny_grid.clone(), depth: db - 1, label: "B_grid_tiny" });
        spaces.push(Space { cfg: Cfg::p2(Kind::SlowStoch, n, 2), alphabet: tiny_grid.clone(), depth: db - 1, label: "B_grid_tiny" });
        spaces.push(Space { cfg: Cfg::p1(Kind::Mfi, n), alphabet: tiny_vol.clone(), depth: dv - 1, label: "B_vol_tiny" });
        spaces.push(Space { cfg: Cfg::p3(Kind::Ppo, n, n + 1, 2), alphabet: tiny_pos.clone(), depth: d - 3, label: "S_tiny+reset" });
    }
    spaces.push(Space { cfg: Cfg::p0(Kind::Obv), alphabet: vol.clone(), depth: dv, label: "B_vol" });
    spaces.push(Space { cfg: Cfg::p0(Kind::Obv), alphabet: with_reset(grid.clone()), depth: db, label: "B_grid+reset" });
    let tup = [1usize, 2, 3, 5];
    for &a in &tup {
        for &b in &tup {
            spaces.push(Space { cfg: Cfg::p2(Kind::SlowStoch, a, b), alphabet: pos.clone(), depth: d - 2, label: "S_pos" });
            spaces.push(Space { cfg: Cfg::p2(Kind::SlowStoch, a, b), alphabet: grid.clone(), depth: db - 1, label: "B_grid" });
            for &c in &tup {
                spaces.push(Space { cfg: Cfg::p3(Kind::Ppo, a, b, c), alphabet: pos.clone(), depth: d - 3, label: "S_pos" });
            }
        }
    }
    spaces.push(Space { cfg: Cfg::p3(Kind::Ppo, 12, 26, 9), alphabet: with_reset(pos.clone()), depth: d - 1, label: "S_pos+reset" });
    spaces.push(Space { cfg: Cfg::p2(Kind::SlowStoch, 14, 3), alphabet: with_reset(pos.clone()), depth: d - 1, label: "S_pos+reset" });
    let o = run_spaces(ctx, PROP, &spaces);
    res.absorb(o);

    // deviation-bounded families for larger periods (P_big up to 512)
    if !res.out.failed() {
        let periods: Vec<usize> = if th { P_BIG.iter().copied().filter(|p| *p <= 512).collect() } else { vec![6, 7, 8, 9, 14, 16, 20, 31, 32, 33, 64, 100] };
        let mut fams = vec![];
        for &n in &periods {
            let len = 3 * n + 5;
            for k in [Kind::Rsi, Kind::FastStoch, Kind::Roc, Kind::Er] {
                let cfg = Cfg::p1(k, n);
                for (name, base) in base_patterns_pos(len) {
                    let all: Vec<usize> = if n <= 64 { (1..=len).collect() } else { (1..=len).filter(|s| s % 5 == 0 || s % n <= 2 || s % n >= n - 2).collect() };
                    fams.push(Family { cfg, base: base.clone(), base_name: name, deviations: vec![], check_at: all });
                    let stride = if n <= 33 || th { 1 } else { (n / 16).max(1) };
                    for p in (0..len).step_by(stride) {
                        for dev in [1e3, 0.5] {
                            fams.push(Family { cfg, base: base.clone(), base_name: name, deviations: vec![(p, Op::S(dev))], check_at: interesting_steps(p, n + 1, len) });
                        }
                    }
                }
            }
            for k in [Kind::FastStoch, Kind::Cci, Kind::Mfi, Kind::Obv] {
                if k == Kind::Obv && n != periods[0] {
                    continue;
                }
                let cfg = if k == Kind::Obv { Cfg::p0(k) } else { Cfg::p1(k, n) };
                for (name, base) in base_patterns_bars(len) {
                    let all: Vec<usize> = if n <= 64 { (1..=len).collect() } else { (1..=len).filter(|s| s % 5 == 0 || s % n <= 2 || s % n >= n - 2).collect() };
                    fams.push(Family { cfg, base: base.clone(), base_name: name, deviations: vec![], check_at: all });
                    let stride = if n <= 33 || th { 1 } else { (n / 16).max(1) };
                    for p in (0..len).step_by(stride) {
                        fams.push(Family { cfg, base: base.clone(), base_name: name, deviations: vec![(p, Op::B(Bar::hlcv(400.0, 1.0, 7.0, 50.0)))], check_at: interesting_steps(p, n + 1, len) });
                    }
                }
            }
            for cfg in [Cfg::p2(Kind::SlowStoch, n, 3), Cfg::p3(Kind::Ppo, n, 2 * n, 9)] {
                for (name, base) in base_patterns_pos(len) {
                    fams.push(Family { cfg, base: base.clone(), base_name: name, deviations: vec![], check_at: (1..=len).filter(|s| s % 3 == 0 || *s < 4).collect() });
                }
            }
        }
        res.extra.insert("deviation_family_runs".into(), json!(fams.len()));
        // medium periods on tick-grid walks (ties, plateaus, double tops at every phase of the ring)
        {
            let ns: Vec<usize> = (6..=40usize).filter(|n| th || n % 3 == 0 || *n == 7 || *n == 10 || *n == 14 || *n == 20).collect();
            let tl = if th { 6000 } else { 1200 };
            let mut cb = vec![];
            let mut cs = vec![];
            for &n in &ns {
                cb.push(Cfg::p1(Kind::FastStoch, n));
                cb.push(Cfg::p2(Kind::SlowStoch, n, 3));
                cb.push(Cfg::p1(Kind::Cci, n));
                cb.push(Cfg::p1(Kind::Mfi, n));
                for k in [Kind::Rsi, Kind::FastStoch, Kind::Roc, Kind::Er] {
                    cs.push(Cfg::p1(k, n));
                }
                cs.push(Cfg::p3(Kind::Ppo, n, 2 * n + 1, 9));
            }
            fams.extend(tick_walk_families(&cb, tl, ctx.seed, true, true));
            fams.extend(tick_walk_families(&cs, tl, ctx.seed, false, true));
        }
        // medium periods with two (thorough: three) tie-producing deviations at every set of positions
        // (props/devfam.rs), every step from the first deviation on
        {
            use super::devfam::*;
            let plan: Vec<(usize, usize, &[Dev])> = if th { vec![(9, 3, &DEVS_ABS[..]), (9, 2, &DEVS_ALL[..]), (17, 2, &DEVS_ALL[..])] } else { vec![(9, 2, &DEVS_ALL[..])] };
            let before = fams.len();
            for &(n, k, devs) in &plan {
                let len = 3 * n + 3;
                for b in BASES {
                    for bars in [false, true] {
                        let base = std::sync::Arc::new(to_ops(&build(b, n, len, &[]), bars));
                        let cfgs: Vec<Cfg> = if bars { vec![Cfg::p1(Kind::FastStoch, n), Cfg::p2(Kind::SlowStoch, n, 3), Cfg::p1(Kind::Cci, n), Cfg::p1(Kind::Mfi, n)] } else { vec![Cfg::p1(Kind::FastStoch, n), Cfg::p1(Kind::Er, n), Cfg::p1(Kind::Roc, n)] };
                        for first in 0..len {
                            for kk in 1..=k {
                                for_each_from(first, len, kk, devs, &mut |set| {
                                    let last = set.last().unwrap().0;
                                    let deviations: Vec<(usize, Op)> = set.iter().map(|(p, d)| (*p, if bars { Op::B(bar_of(dev_value(*d, b, *p, n))) } else { Op::S(dev_value(*d, b, *p, n)) })).collect();
                                    for cfg in &cfgs {
                                        fams.push(Family { cfg: *cfg, base: base.clone(), base_name: "devfam", deviations: deviations.clone(), check_at: (first + 1..=(last + n + 3).min(len)).collect() });
                                    }
                                    true
                                });
                            }
                        }
                    }
                }
            }
            res.extra.insert("multi_deviation_family_runs".into(), json!(fams.len() - before));
        }
        let chunks: Vec<&[Family]> = fams.chunks(32).collect();
        let outs = par_run(ctx, &chunks, |_, chunk| {
            let mut out = JobOut::default();
            for f in chunk.iter() {
                if ctx.out_of_time() {
                    out.stats.capped.push("time cap in deviation families".into());
                    break;
                }
                run_family(PROP, f, &mut out);
                if out.failed() {
                    break;
                }
            }
            out
        });
        res.absorb(merge_jobs(outs));
    }
    // very long runs: incremental double-double reference, all orderings of two regime segments
    if !res.out.failed() {
        use crate::regimes::{orderings, Regime};
        let ords = orderings(&[Regime::Walk, Regime::Saw, Regime::Extremes, Regime::Stair, Regime::Spikes], 2);
        let seglen = if th { 500_000 } else { 25_000 };
        let mut jobs: Vec<(Cfg, Vec<Regime>, f64, bool)> = vec![];
        for &n in &[1usize, 2, 9, 14, 50] {
            for (oi, ord) in ords.iter().enumerate() {
                for &m in &[0.7, 1.1e6] {
                    if !th && (oi + n) % 3 != 0 {
                        continue;
                    }
                    for k in [Kind::Rsi, Kind::FastStoch, Kind::Roc, Kind::Er] {
                        jobs.push((Cfg::p1(k, n), ord.clone(), m, false));
                    }
                    jobs.push((Cfg::p1(Kind::FastStoch, n), ord.clone(), m, true));
                    jobs.push((Cfg::p2(Kind::SlowStoch, n, 3), ord.clone(), m, true));
                    jobs.push((Cfg::p2(Kind::SlowStoch, n, 3), ord.clone(), m, false));
                    jobs.push((Cfg::p3(Kind::Ppo, n, 2 * n + 1, 9), ord.clone(), m, false));
                    if n == 1 {
                        jobs.push((Cfg::p0(Kind::Obv), ord.clone(), m, true));
                    }
                }
            }
        }
        res.extra.insert("very_long_runs".into(), json!(jobs.len()));
        let outs = par_run(ctx, &jobs, |_, (cfg, ord, m, bars)| {
            let mut out = JobOut::default();
            let e = if ctx.out_of_time() { out.stats.capped.push("time cap in very long runs".into()); Ok(()) } else { long_run_incref(PROP, cfg, ord, seglen, *m, *bars, ctx.seed, 97, &mut out) };
            (out, e.err())
        });
        for (o, e) in outs {
            if let Some(e) = e {
                res.machinery_errors.push(e);
            }
            res.absorb(o);
        }
        // the windowed ratio indicators (CCI, MFI) on long streams: recomputed from the harness's own copy
        // of the window (the driver C13 uses), for code that only runs every few thousand updates
        if !res.out.failed() {
            use super::c13::{long_run, LongRun};
            let mut runs = vec![];
            for &n in &[2usize, 5, 14, 20] {
                for (oi, ord) in ords.iter().enumerate() {
                    if oi % 4 != n % 4 && !th {
                        continue;
                    }
                    for k in [Kind::Cci, Kind::Mfi] {
                        runs.push(LongRun { cfg: Cfg::p1(k, n), regimes: ord.clone(), seglen: if th { 100_000 } else { 6_000 }, m: 0.7, force_bars: false });
                    }
                }
            }
            let outs = par_run(ctx, &runs, |_, r| {
                let mut out = JobOut::default();
                long_run(PROP, r, ctx.seed, 97, &mut out);
                out
            });
            res.absorb(merge_jobs(outs));
        }
    }
    // Default::default() instances against the reference for the parameters they report
    if !res.out.failed() {
        let mut o = JobOut::default();
        default_instances(PROP, &[Kind::Rsi, Kind::FastStoch, Kind::SlowStoch, Kind::Roc, Kind::Er, Kind::Ppo, Kind::Cci, Kind::Mfi, Kind::Obv], &mut o);
        res.absorb(o);
    }
    res.require(res.out.stats.evaluations > 0, "no applicable oracle evaluation");
    res.rule = "case = (configuration, history of positive prices / valid bars) replayed on a fresh real instance; last output compared with the documented formula evaluated from scratch (double-double) at tolerance tau(t)*c*scale; steps with zero reference denominator or c>1e6 are skipped and counted; non-trivial = applicable and history longer than the look-back".into();
    res.bounds = format!("seq(S_pos+reset,{d}) for RSI/FAST_STOCH/ROC/ER n=1..5 (and inexact prices + a 2.5e8 spike symbol, n=1..4, one level shallower; S_huge = prices of 1e307..7e307 for RSI/FAST_STOCH/ROC/PPO); seq(B_grid+reset,{db}) for FAST_STOCH/CCI/OBV; seq(B_vol,{dv}) for MFI n=1..5 and OBV; seq(B_mfi (5 bars with equal typical prices), 8/10) for MFI n=1..4; the same alphabets in a 2^-60 price unit for periods 1..4 at reduced depth; SLOW_STOCH over {{1,2,3,5}}^2, PPO over {{1,2,3,5}}^3 at reduced depth; deviation families for periods up to {}; very long runs (2 x 25k / 2 x 500k steps) of RSI/FAST_STOCH/SLOW_STOCH/ROC/ER/PPO/OBV against an incremental double-double reference, and of CCI/MFI (2 x 6k / 2 x 100k steps) against the window recomputed from scratch", if th { 512 } else { 100 });
    res.assumptions = vec!["positive prices / valid bars only (the statement's domain)".into(), "c read as (largest magnitude entering numerator or denominator, inputs included) / |reference denominator|".into()];
    res
}
