//! C09 - dispersion measures are non-negative and bands are ordered around their middle.

use super::refcmp::Space;
use crate::alpha::*;
use crate::engine::*;
use crate::regimes::*;
use crate::report::CheckResult;
use crate::subjects::{make, replay_last, Cfg, Kind};
use crate::types::*;
use serde_json::json;

pub const PROP: &str = "C09";

fn series(hist: &[Op], f: impl Fn(&Bar) -> f64) -> Vec<f64> {
    hist.iter()
        .map(|o| match o {
            Op::S(x) => *x,
            Op::B(b) => f(b),
            Op::Reset => unreachable!(),
        })
        .collect()
}

fn minmax(xs: &[f64]) -> (f64, f64) {
    let mut lo = f64::INFINITY;
    let mut hi = f64::NEG_INFINITY;
    for x in xs {
        lo = lo.min(*x);
        hi = hi.max(*x);
    }
    (lo, hi)
}

/// Invariant on one state. `hist` = inputs since reset, `o` = output of the last one.
fn invariant(cfg: &Cfg, hist: &[Op], o: &Out) -> Result<(), (String, String)> {
    let m = hist.iter().map(|x| x.maxmag()).fold(0.0, f64::max);
    invariant_at(cfg, hist, hist.len(), m, o)
}

/// `hist` may be only the tail (at least one window) of a history of `steps` inputs whose largest magnitude is `m`
fn invariant_at(cfg: &Cfg, hist: &[Op], steps: usize, m: f64, o: &Out) -> Result<(), (String, String)> {
    let t = hist.len();
    let slack = tau(steps) * m;
    let n = cfg.p[0];
    let v = o.v;
    let e = |c: &str, s: String| Err((c.to_string(), s));
    match cfg.kind {
        Kind::Sd | Kind::Mad => {
            if !(v[0] >= 0.0) {
                return e("negative-or-nan", "a value >= 0 (never NaN)".into());
            }
        }
        Kind::Tr | Kind::Atr => {
            if !(v[0] >= 0.0) {
                return e("negative-or-nan", "a value >= 0".into());
            }
        }
        Kind::Bb | Kind::Kc => {
            if cfg.mult >= 0.0 {
                if !(v[2] <= v[0] + slack && v[0] <= v[1] + slack) {
                    return e("bands-unordered", format!("lower <= average <= upper (slack {:.3e})", slack));
                }
            }
        }
        Kind::Ce => {
            if cfg.mult >= 0.0 {
                let highs = series(hist, |b| b.h);
                let lows = series(hist, |b| b.l);
                let (_, hi) = minmax(&highs[t.saturating_sub(n)..]);
                let (lo, _) = minmax(&lows[t.saturating_sub(n)..]);
                if !(v[0] <= hi + slack && v[1] >= lo - slack) {
                    return e("exit-outside-window", format!("long <= window max {} and short >= window min {} (slack {:.3e})", hi, lo, slack));
                }
            }
        }
        Kind::Macd | Kind::Ppo => {
            let want = v[0] - v[1];
            let ok = rel_eq(v[2], want, 0.0) || (v[2] - want).abs() <= slack;
            if !ok {
                return e("histogram-mismatch", format!("histogram = line - signal = {}", f2s(want)));
            }
        }
        Kind::Sma | Kind::Wma => {
            let xs = series(hist, |b| b.c);
            let (lo, hi) = minmax(&xs[t.saturating_sub(n)..]);
            if !(v[0] >= lo - slack && v[0] <= hi + slack) {
                return e("outside-hull", format!("a value in [window min {}, window max {}] (slack {:.3e})", lo, hi, slack));
            }
        }
        Kind::Ema => {
            let xs = series(hist, |b| b.c);
            let (lo, hi) = minmax(&xs);
            if !(v[0] >= lo - slack && v[0] <= hi + slack) {
                return e("outside-hull", format!("a value in [history min {}, history max {}] (slack {:.3e})", lo, hi, slack));
            }
        }
        _ => {}
    }
    Ok(())
}

fn node(cfg: &Cfg, ops: &[Op], last: &Out, out: &mut JobOut) {
    node_x(cfg, ops, last, out, "")
}

/// `suffix` is appended to the failure class (the extreme-magnitude stage has its own classes, so
/// that a finding listed for it never hides the same kind of failure at ordinary magnitudes)
fn node_x(cfg: &Cfg, ops: &[Op], last: &Out, out: &mut JobOut, suffix: &str) {
    let hist = since_reset(ops);
    if hist.is_empty() {
        return;
    }
    out.stats.evaluations += 1;
    if hist.len() > cfg.max_period() {
        out.stats.nontrivial += 1;
    }
    if let Err((class, exp)) = invariant(cfg, hist, last) {
        out.fail(Violation::new(PROP, cfg, ops, &format!("{}{}", class, suffix)).obs(out2s(last)).exp(exp));
        return;
    }
    // Minimum <= Maximum over the same stream (paired run)
    if cfg.kind == Kind::Min {
        let mx = replay_last(&Cfg::p1(Kind::Max, cfg.p[0]), ops);
        out.stats.transitions += ops.len() as u64;
        if !(last.v[0] <= mx.v[0]) {
            out.fail(Violation::new(PROP, cfg, ops, &format!("min-above-max{}", suffix)).obs(format!("min {} max {}", f2s(last.v[0]), f2s(mx.v[0]))).exp("Minimum <= Maximum on the same stream".into()));
        }
    }
}

pub fn run(ctx: &Ctx) -> CheckResult {
    let mut res = CheckResult::new(PROP, "model_checking");
    let th = ctx.tier_thorough;
    let (d, dr, db) = if th { (9, 8, 6) } else { (7, 6, 5) };
    let int = with_reset(s_ops(&S_INT));
    let rough = s_ops(&S_ROUGH);
    let grid = with_reset(b_ops(&b_grid()));
    let mults = [0.0, 0.5, 2.0, 1e6];
    // valid bars at negative price levels (spreads, basis series): the grid shifted by -5
    let neg_grid: Vec<Op> = with_reset(b_grid().iter().map(|b| Op::B(Bar { o: b.o - 5.0, h: b.h - 5.0, l: b.l - 5.0, c: b.c - 5.0, v: b.v })).collect());
    let mut spaces = vec![];
    for n in 1..=5usize {
        for k in [Kind::Sd, Kind::Mad, Kind::Sma, Kind::Wma, Kind::Ema, Kind::Min, Kind::Atr] {
            spaces.push(Space { cfg: Cfg::p1(k, n), alphabet: int.clone(), depth: d, label: "S_int+reset" });
            spaces.push(Space { cfg: Cfg::p1(k, n), alphabet: rough.clone(), depth: dr, label: "S_rough" });
        }
        spaces.push(Space { cfg: Cfg::p1(Kind::Atr, n), alphabet: grid.clone(), depth: db, label: "B_grid+reset" });
        for &m in &mults {
            spaces.push(Space { cfg: Cfg::pm(Kind::Bb, n, m), alphabet: int.clone(), depth: d - 1, label: "S_int+reset" });
            spaces.push(Space { cfg: Cfg::pm(Kind::Bb, n, m), alphabet: rough.clone(), depth: dr - 1, label: "S_rough" });
            spaces.push(Space { cfg: Cfg::pm(Kind::Kc, n, m), alphabet: int.clone(), depth: d - 2, label: "S_int+reset" });
            spaces.push(Space { cfg: Cfg::pm(Kind::Kc, n, m), alphabet: rough.clone(), depth: dr - 2, label: "S_rough" });
            spaces.push(Space { cfg: Cfg::pm(Kind::Kc, n, m), alphabet: grid.clone(), depth: db - 1, label: "B_grid+reset" });
            spaces.push(Space { cfg: Cfg::pm(Kind::Ce, n, m), alphabet: grid.clone(), depth: if m == 2.0 { db + 1 } else { db }, label: "B_grid+reset" });
            spaces.push(Space { cfg: Cfg::pm(Kind::Ce, n, m), alphabet: neg_grid.clone(), depth: db - 1, label: "B_grid-5+reset" });
            spaces.push(Space { cfg: Cfg::pm(Kind::Kc, n, m), alphabet: neg_grid.clone(), depth: db - 2, label: "B_grid-5+reset" });
        }
    }
    spaces.push(Space { cfg: Cfg::p0(Kind::Tr), alphabet: int.clone(), depth: d, label: "S_int+reset" });
    spaces.push(Space { cfg: Cfg::p0(Kind::Tr), alphabet: rough.clone(), depth: dr, label: "S_rough" });
    spaces.push(Space { cfg: Cfg::p0(Kind::Tr), alphabet: grid.clone(), depth: db, label: "B_grid+reset" });
    for tri in [[1usize, 1, 1], [1, 2, 3], [3, 2, 1], [2, 5, 2], [12, 26, 9]] {
        for k in [Kind::Macd, Kind::Ppo] {
            spaces.push(Space { cfg: Cfg::p3(k, tri[0], tri[1], tri[2]), alphabet: int.clone(), depth: d - 1, label: "S_int+reset" });
            spaces.push(Space { cfg: Cfg::p3(k, tri[0], tri[1], tri[2]), alphabet: rough.clone(), depth: dr - 1, label: "S_rough" });
        }
    }
    // scalar and bar inputs mixed on one instance
    let mixed: Vec<Op> = vec![Op::S(1.0), Op::B(Bar::hlc(2.0, 1.0, 2.0)), Op::S(4.0), Op::B(Bar::hlc(4.0, 1.0, 1.0)), Op::S(-2.0), Op::B(Bar::hlc(4.0, 2.0, 4.0)), Op::Reset];
    for n in 1..=3usize {
        for k in [Kind::Sd, Kind::Mad, Kind::Sma, Kind::Wma, Kind::Ema, Kind::Min, Kind::Atr] {
            spaces.push(Space { cfg: Cfg::p1(k, n), alphabet: mixed.clone(), depth: d - 2, label: "mixed scalar/bar" });
        }
        spaces.push(Space { cfg: Cfg::pm(Kind::Bb, n, 2.0), alphabet: mixed.clone(), depth: d - 2, label: "mixed scalar/bar" });
        spaces.push(Space { cfg: Cfg::pm(Kind::Kc, n, 2.0), alphabet: mixed.clone(), depth: d - 2, label: "mixed scalar/bar" });
        spaces.push(Space { cfg: Cfg::p3(Kind::Macd, n, n + 2, 2), alphabet: mixed.clone(), depth: d - 2, label: "mixed scalar/bar" });
    }
    spaces.push(Space { cfg: Cfg::p0(Kind::Tr), alphabet: mixed.clone(), depth: d - 1, label: "mixed scalar/bar" });
    // periods that are multiples of 2^32 (legal for window-less indicators)
    for &n in &[1usize << 32, (1usize << 32) + 2, 3usize << 32] {
        spaces.push(Space { cfg: Cfg::p1(Kind::Ema, n), alphabet: int.clone(), depth: d - 2, label: "huge period" });
        spaces.push(Space { cfg: Cfg::p1(Kind::Atr, n), alphabet: grid.clone(), depth: db - 1, label: "huge period" });
        spaces.push(Space { cfg: Cfg::pm(Kind::Kc, n, 2.0), alphabet: grid.clone(), depth: db - 1, label: "huge period" });
        spaces.push(Space { cfg: Cfg::p3(Kind::Macd, 3, n, n), alphabet: int.clone(), depth: d - 2, label: "huge period" });
    }
    // tiny price unit: the slack tau(t)*M shrinks with M, an ulp of a percentage does not
    let tiny = with_reset(s_ops(&S_TINY));
    for tri in [[1usize, 2, 3], [3, 2, 1], [2, 5, 2], [12, 26, 9]] {
        for k in [Kind::Macd, Kind::Ppo] {
            spaces.push(Space { cfg: Cfg::p3(k, tri[0], tri[1], tri[2]), alphabet: tiny.clone(), depth: d, label: "S_tiny+reset" });
        }
    }
    for n in 1..=3usize {
        spaces.push(Space { cfg: Cfg::pm(Kind::Bb, n, 2.0), alphabet: tiny.clone(), depth: d - 1, label: "S_tiny+reset" });
        spaces.push(Space { cfg: Cfg::pm(Kind::Kc, n, 2.0), alphabet: tiny.clone(), depth: d - 1, label: "S_tiny+reset" });
        for k in [Kind::Sma, Kind::Wma, Kind::Ema, Kind::Sd, Kind::Mad] {
            spaces.push(Space { cfg: Cfg::p1(k, n), alphabet: tiny.clone(), depth: d - 1, label: "S_tiny+reset" });
        }
    }
    // deep and narrow: three levels, periods 3..8 (a window whose mean equals its newest value at one
    // particular ring phase, then the settled inputs that expose a wrong running sum, needs ~2n inputs)
    let narrow = s_ops(&S_NARROW);
    for n in 3..=8usize {
        for k in [Kind::Sd, Kind::Mad, Kind::Sma, Kind::Wma, Kind::Ema, Kind::Min] {
            spaces.push(Space { cfg: Cfg::p1(k, n), alphabet: narrow.clone(), depth: if th { 13 } else { 11 }, label: "S_narrow" });
        }
        spaces.push(Space { cfg: Cfg::pm(Kind::Bb, n, 2.0), alphabet: narrow.clone(), depth: if th { 12 } else { 10 }, label: "S_narrow" });
    }
    let mut jobs: Vec<(usize, usize)> = vec![];
    for (i, s) in spaces.iter().enumerate() {
        for a in 0..s.alphabet.len() {
            jobs.push((i, a));
        }
    }
    jobs.sort_by_key(|(i, _)| std::cmp::Reverse((spaces[*i].alphabet.len() as f64).powi(spaces[*i].depth as i32) as u64));
    // (spaces with periods beyond 2^32 after all the others: see refcmp::run_spaces)
    let (jobs_huge, jobs): (Vec<(usize, usize)>, Vec<(usize, usize)>) = jobs.into_iter().partition(|(i, _)| spaces[*i].label == "huge period");
    for part in [&jobs, &jobs_huge] {
        if res.out.failed() {
            break;
        }
        let outs = par_run(ctx, part, |_, (i, a)| {
            let sp = &spaces[*i];
            let mut out = JobOut::default();
            seq_job(ctx, PROP, &sp.cfg, &sp.alphabet, *a, sp.depth, &mut out, |ops, last, out| node(&sp.cfg, ops, last, out));
            out
        });
        res.absorb(merge_jobs(outs));
    }
    // the same histories (reduced depth) with the instance serialized + restored / replaced by its clone
    // right before the last operation
    if !res.out.failed() {
        let cap = if th { 5 } else { 4 };
        let jobs2: Vec<(usize, usize, Via)> = jobs.iter().filter(|(i, _)| spaces[*i].label != "huge period").flat_map(|(i, a)| VIAS.map(|v| (*i, *a, v))).collect();
        let outs = par_run(ctx, &jobs2, |_, (i, a, via)| {
            let sp = &spaces[*i];
            let mut out = JobOut::default();
            seq_job_via(ctx, PROP, &sp.cfg, &sp.alphabet, *a, sp.depth.min(cap), *via, &mut out, |ops, last, out| node(&sp.cfg, ops, last, out));
            out
        });
        res.absorb(merge_jobs(outs));
    }

    // medium periods on tick-grid walks (ties, plateaus, a new extreme exactly when a tied one leaves)
    if !res.out.failed() {
        let mut tw: Vec<(Cfg, bool)> = vec![];
        for n in (6..=40usize).filter(|n| th || n % 4 == 2 || *n == 9 || *n == 20) {
            for k in [Kind::Sd, Kind::Mad, Kind::Sma, Kind::Wma, Kind::Ema, Kind::Min, Kind::Atr] {
                tw.push((Cfg::p1(k, n), false));
            }
            tw.push((Cfg::pm(Kind::Bb, n, 2.0), false));
            tw.push((Cfg::pm(Kind::Kc, n, 2.0), true));
            tw.push((Cfg::pm(Kind::Ce, n, 3.0), true));
            tw.push((Cfg::p1(Kind::Atr, n), true));
            tw.push((Cfg::p3(Kind::Macd, n, 2 * n + 1, 9), false));
        }
        let len = if th { 2000 } else { 600 };
        let outs = par_run(ctx, &tw, |_, (cfg, bars)| {
            let mut out = JobOut::default();
            let walk = super::refcmp::tick_walk(len, ctx.seed ^ 0x9, *bars, *bars, true);
            let r = std::panic::catch_unwind(std::panic::AssertUnwindSafe(|| {
                let mut s = make(cfg);
                walk.iter().map(|op| s.apply(op)).collect::<Vec<Out>>()
            }));
            out.stats.traces += 1;
            out.stats.transitions += len as u64;
            match r {
                Ok(outs) => {
                    for t in 0..len {
                        if matches!(walk[t], Op::Reset) {
                            continue;
                        }
                        out.stats.states += 1;
                        node(cfg, &walk[..=t], &outs[t], &mut out);
                        if out.failed() {
                            return out;
                        }
                    }
                }
                Err(_) => out.fail(Violation::new(PROP, cfg, &walk[..], "panic").obs("panic".into()).exp("outputs".into())),
            }
            out
        });
        res.absorb(merge_jobs(outs));
    }

    // flat stretches after large values (cancellation could drive a variance negative)
    if !res.out.failed() {
        let set = [Regime::Extremes, Regime::Flat, Regime::Spikes, Regime::Osc, Regime::Tick];
        let ords = orderings(&set, 3);
        let seglen = if th { 400 } else { 120 };
        let mut mj: Vec<(Cfg, Vec<Regime>, f64)> = vec![];
        for n in [1usize, 2, 3, 5, 14, 50] {
            for ord in &ords {
                for m in [1e-3, 1.0, 1e9] {
                    for k in [Kind::Sd, Kind::Mad, Kind::Sma, Kind::Wma, Kind::Ema] {
                        mj.push((Cfg::p1(k, n), ord.clone(), m));
                    }
                    mj.push((Cfg::pm(Kind::Bb, n, 2.0), ord.clone(), m));
                    mj.push((Cfg::pm(Kind::Bb, n, 0.0), ord.clone(), m));
                    // exponential-memory composites: long flat tails let the averages converge to within an ulp
                    mj.push((Cfg::p3(Kind::Macd, n, 2 * n, n + 1), ord.clone(), m));
                    mj.push((Cfg::p3(Kind::Ppo, n, 2 * n, n + 1), ord.clone(), m));
                    mj.push((Cfg::pm(Kind::Kc, n, 2.0), ord.clone(), m));
                    mj.push((Cfg::p1(Kind::Atr, n), ord.clone(), m));
                }
            }
        }
        res.extra.insert("macro_runs".into(), json!(mj.len()));
        let chunks: Vec<&[(Cfg, Vec<Regime>, f64)]> = mj.chunks(32).collect();
        let outs = par_run(ctx, &chunks, |_, chunk| {
            let mut out = JobOut::default();
            for (cfg, ord, m) in chunk.iter() {
                if ctx.out_of_time() {
                    out.stats.capped.push("time cap in macro runs".into());
                    break;
                }
                let mut g = Gen::new(*m, ctx.seed);
                let mut ops = vec![];
                for r in ord {
                    for i in 0..seglen {
                        ops.push(Op::S(g.price(*r, i)));
                    }
                }
                let r = std::panic::catch_unwind(std::panic::AssertUnwindSafe(|| {
                    let mut s = make(cfg);
                    ops.iter().map(|op| s.apply(op)).collect::<Vec<Out>>()
                }));
                out.stats.traces += 1;
                out.stats.states += ops.len() as u64;
                out.stats.transitions += ops.len() as u64;
                match r {
                    Ok(outs) => {
                        for i in 0..ops.len() {
                            out.stats.evaluations += 1;
                            if let Err((class, exp)) = invariant(cfg, &ops[..=i], &outs[i]) {
                                out.fail(Violation::new(PROP, cfg, &ops[..=i], &class).obs(out2s(&outs[i])).exp(exp).det(format!("regimes {:?} m={}", ord.iter().map(|r| r.name()).collect::<Vec<_>>(), m)));
                                break;
                            }
                        }
                    }
                    Err(_) => out.fail(Violation::new(PROP, cfg, &ops, "panic").obs("panic".into()).exp("a value".into())),
                }
                if out.failed() {
                    break;
                }
            }
            out
        });
        res.absorb(merge_jobs(outs));
    }
    // long horizon: one instance fed past 2^22 inputs (periodic maintenance code - "rebuild the moments every
    // 2^22 updates" - runs for the first time there): constant off-grid streams (a one-pass variance of a
    // constant window is a negative rounding residue) and a tick-grid walk; EVERY step judged
    if !res.out.failed() {
        let h = super::refcmp::horizon_len(th);
        let ws = super::refcmp::tick_walk(h, ctx.seed ^ 0x09, false, true, false);
        let wb = super::refcmp::tick_walk(h, ctx.seed ^ 0x09, true, true, false);
        let mut hz: Vec<(Cfg, u8)> = vec![];
        for stream in 0..3u8 {
            for cfg in [Cfg::p1(Kind::Sd, 20), Cfg::p1(Kind::Sd, 10), Cfg::pm(Kind::Bb, 20, 2.0), Cfg::pm(Kind::Bb, 22, 2.0), Cfg::p1(Kind::Mad, 20), Cfg::p1(Kind::Sma, 20), Cfg::p1(Kind::Wma, 20), Cfg::p1(Kind::Atr, 14), Cfg::pm(Kind::Kc, 14, 2.0)] {
                hz.push((cfg, stream));
            }
        }
        let outs = par_run(ctx, &hz, |_, (cfg, stream)| {
            let mut out = JobOut::default();
            let n = cfg.p[0];
            let bars = cfg.kind.bar_native();
            let constant = [100.7, 100.2][(*stream as usize).min(1)];
            let op_at = |i: usize| -> Op {
                match stream {
                    2 => {
                        if bars {
                            wb[i]
                        } else {
                            ws[i]
                        }
                    }
                    _ => {
                        if bars {
                            Op::B(Bar { o: constant, h: constant, l: constant, c: constant, v: 1.0 })
                        } else {
                            Op::S(constant)
                        }
                    }
                }
            };
            let mut tail: std::collections::VecDeque<Op> = std::collections::VecDeque::with_capacity(n + 1);
            let mut m = 0.0f64;
            let mut bad: Option<(usize, Out, String, String)> = None;
            let r = std::panic::catch_unwind(std::panic::AssertUnwindSafe(|| {
                let mut s = make(cfg);
                for i in 0..h {
                    let op = op_at(i);
                    m = m.max(op.maxmag());
                    let o = s.apply(&op);
                    tail.push_back(op);
                    if tail.len() > n {
                        tail.pop_front();
                    }
                    let hist: Vec<Op> = if matches!(cfg.kind, Kind::Sma | Kind::Wma) { tail.iter().copied().collect() } else { vec![] };
                    if let Err((class, exp)) = invariant_at(cfg, &hist, i + 1, m, &o) {
                        bad = Some((i, o, class, exp));
                        return;
                    }
                }
            }));
            out.stats.traces += 1;
            out.stats.transitions += h as u64;
            out.stats.states += h as u64;
            out.stats.evaluations += h as u64;
            out.stats.nontrivial += h as u64;
            let shown: Vec<Op> = tail.iter().copied().collect();
            if r.is_err() {
                out.fail(Violation::new(PROP, cfg, &shown, "panic").obs("panic".into()).exp("outputs".into()));
            } else if let Some((i, o, class, exp)) = bad {
                out.fail(Violation::new(PROP, cfg, &shown, &class).obs(out2s(&o)).exp(exp).det(format!("input number {} of one instance on {}; ops shown = the current window", i + 1, if *stream == 2 { "a tick-grid walk".to_string() } else { format!("the constant stream {}", constant) })));
            }
            out
        });
        res.extra.insert("long_horizon_steps".into(), json!(h));
        res.absorb(merge_jobs(outs));
    }
    // LAST: finite inputs at both ends of the f64 range (differences overflow)
    if !res.out.failed() {
        let ext = with_reset(s_ops(&S_SIGNED_MAX));
        let dx = if th { 7 } else { 5 };
        let mut spaces = vec![];
        let kinds = [Kind::Sd, Kind::Mad, Kind::Sma, Kind::Wma, Kind::Ema, Kind::Min, Kind::Atr];
        for n in 1..=4usize {
            for &k in &kinds {
                spaces.push(Space { cfg: Cfg::p1(k, n), alphabet: ext.clone(), depth: dx, label: "S_signed_max+reset" });
            }
            spaces.push(Space { cfg: Cfg::pm(Kind::Bb, n, 2.0), alphabet: ext.clone(), depth: dx, label: "S_signed_max+reset" });
            spaces.push(Space { cfg: Cfg::pm(Kind::Kc, n, 2.0), alphabet: ext.clone(), depth: dx, label: "S_signed_max+reset" });
        }
        spaces.push(Space { cfg: Cfg::p0(Kind::Tr), alphabet: ext.clone(), depth: dx, label: "S_signed_max+reset" });
        let mut jobs: Vec<(usize, usize)> = vec![];
        for (i, s) in spaces.iter().enumerate() {
            for a in 0..s.alphabet.len() {
                jobs.push((i, a));
            }
        }
        let outs = par_run(ctx, &jobs, |_, (i, a)| {
            let sp = &spaces[*i];
            let mut out = JobOut::default();
            seq_job(ctx, PROP, &sp.cfg, &sp.alphabet, *a, sp.depth, &mut out, |ops, last, out| node_x(&sp.cfg, ops, last, out, "@extreme-magnitudes"));
            out
        });
        res.absorb(merge_jobs(outs));
    }
    res.rule = "case = (configuration, history); invariants evaluated on the real output in every state: SD/MAD >= 0 and not NaN, TR/ATR >= 0, Minimum <= Maximum (paired run), lower <= average <= upper (BB, KC; multiplier >= 0), CE inside the reference window extremes, histogram = line - signal (MACD, PPO), SMA/WMA inside the window hull, EMA inside the history hull (last groups up to tau(t)*M); non-trivial = history longer than the window".into();
    res.bounds = format!("seq(S_int+reset,{d}), seq(S_rough,{dr}) and seq(S_tiny+reset) scalar, seq(B_grid+reset,{db}) bars (ChandelierExit / KeltnerChannel also on the grid shifted to negative prices), periods 1..5, multipliers {{0,0.5,2,1e6}}; streams mixing scalars and bars on one instance; EMA periods that are multiples of 2^32; the same histories to depth 4/5 with a serde round trip / clone before the last operation; seq(S_signed_max = {{-1e308, 1e308, f64::MAX, f64::MIN, 1, 0}}+reset, 5/7) last (listed findings K6-K11 there); tick-grid walks of 600 / 2000 steps for periods 6..40; constant streams 100.7 / 100.2 and a tick-grid walk of 2^22+4096 (2^23+4096) inputs on one instance, every step judged; all 5^3 orderings of {{extremes, flat, spikes, osc, tick}} segments at scales 1e-3, 1, 1e9");
    res
}
