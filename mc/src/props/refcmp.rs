//! Shared driver for the "implementation == reference formula" properties
//! (C01, C02, C03): bounded-exhaustive sequence spaces, explicit-state
//! fixpoints, deviation-bounded families for large periods.

use crate::engine::*;
use crate::oracle::{compare, Verdict};
use crate::subjects::Cfg;
use crate::types::*;

#[derive(Clone)]
pub struct Space {
    pub cfg: Cfg,
    pub alphabet: Vec<Op>,
    pub depth: usize,
    pub label: &'static str,
}

/// Evaluate the reference oracle on one node.
pub fn oracle_node(prop: &str, cfg: &Cfg, ops: &[Op], last: &Out, out: &mut JobOut) {
    let hist = since_reset(ops);
    if hist.is_empty() {
        return;
    }
    match compare(cfg, hist, last) {
        Verdict::Ok(w) => {
            out.stats.evaluations += 1;
            let win = cfg.kind.window(cfg).unwrap_or(1);
            if hist.len() > win {
                out.stats.nontrivial += 1;
            }
            out.stats.ratio(w, 1.0, || format!("{} after [{}]", cfg.descr(), ops_text(ops)));
            out.stats.sample(|| format!("{} ops=[{}] -> {}", cfg.descr(), ops_text(ops), out2s(last)));
        }
        Verdict::Skip(why) => {
            out.stats.skipped += 1;
            out.stats.count(&format!("skip: {}", why));
        }
        Verdict::Fail { obs, exp, detail } => {
            out.fail(Violation::new(prop, cfg, ops, "value-mismatch").obs(obs).exp(exp).det(detail));
        }
    }
}

/// 2^-600: exact for every normal f64 above 2^-422; brings prices near f64::MAX into a
/// range where the double-double reference (and squared deviations) cannot overflow.
pub const DOWN: f64 = 2.409919865102884e-181;

fn scale_op(op: &Op, c: f64) -> Op {
    match op {
        Op::S(x) => Op::S(x * c),
        Op::B(b) => Op::B(Bar { o: b.o * c, h: b.h * c, l: b.l * c, c: b.c * c, v: b.v }),
        Op::Reset => Op::Reset,
    }
}

/// Oracle for prices near f64::MAX (price-valued outputs only: every formula of C01/C02 is
/// homogeneous of degree 1 in the prices).  The reference is evaluated on the history
/// scaled by 2^-600 (exact), the observed output is scaled by the same factor (exact),
/// and both are compared at the statement's tolerance.  A non-finite observed component
/// against a finite reference is classed "intermediate-overflow" (an intermediate of the
/// implementation exceeded f64::MAX although inputs and exact result are finite).
pub fn oracle_node_scaled(prop: &str, cfg: &Cfg, ops: &[Op], last: &Out, out: &mut JobOut) {
    let hist = since_reset(ops);
    if hist.is_empty() {
        return;
    }
    let scaled: Vec<Op> = hist.iter().map(|o| scale_op(o, DOWN)).collect();
    let r = crate::refm::reference(cfg, &scaled);
    if r.v[..r.n].iter().any(|x| !(x.abs() * (1.0 / DOWN)).is_finite()) {
        // the exact result itself is not representable
        out.stats.skipped += 1;
        out.stats.count("skip: exact result beyond f64::MAX");
        return;
    }
    let mut o2 = *last;
    for i in 0..o2.n as usize {
        o2.v[i] *= DOWN;
    }
    match crate::oracle::compare_with(cfg, hist.len(), &r, &o2) {
        Verdict::Ok(w) => {
            out.stats.evaluations += 1;
            let win = cfg.kind.window(cfg).unwrap_or(1);
            if hist.len() > win {
                out.stats.nontrivial += 1;
            }
            out.stats.ratio(w, 1.0, || format!("{} after [{}]", cfg.descr(), ops_text(ops)));
        }
        Verdict::Skip(why) => {
            out.stats.skipped += 1;
            out.stats.count(&format!("skip: {}", why));
        }
        Verdict::Fail { obs: _, exp: _, detail } => {
            let overflow = (0..last.n as usize).any(|i| !last.v[i].is_finite());
            let exp: Vec<f64> = r.v[..r.n].iter().map(|x| x * (1.0 / DOWN)).collect();
            out.fail(Violation::new(prop, cfg, ops, if overflow { if hist.iter().any(|o| matches!(o, Op::B(_))) { "intermediate-overflow-bar-input" } else { "intermediate-overflow-scalar-input" } } else { "value-mismatch" }).obs(out2s(last)).exp(format!("{:?}", exp)).det(format!("(compared after exact scaling by 2^-600) {}", detail)));
        }
    }
}

/// Run all spaces, parallel over (space, first symbol).
pub fn run_spaces(ctx: &Ctx, prop: &'static str, spaces: &[Space]) -> JobOut {
    let mut jobs: Vec<(usize, usize)> = vec![];
    for (i, s) in spaces.iter().enumerate() {
        for a in 0..s.alphabet.len() {
            jobs.push((i, a));
        }
    }
    // heavier jobs first for better balance
    jobs.sort_by_key(|(i, _)| std::cmp::Reverse(((spaces[*i].alphabet.len() as f64).powi(spaces[*i].depth as i32) as u64).saturating_mul(spaces[*i].cfg.max_period().min(4096) as u64)));
    // spaces with periods beyond 2^32 run after all others have reported: a change that turns such a period
    // into a window size exhausts memory (a machinery exit), and the ordinary spaces should be heard first
    let (jobs_huge, jobs): (Vec<(usize, usize)>, Vec<(usize, usize)>) = jobs.into_iter().partition(|(i, _)| spaces[*i].label == "huge period");
    let run_one = |(i, a): &(usize, usize)| -> JobOut {
        let sp = &spaces[*i];
        let mut out = JobOut::default();
        let near_max = sp.label.starts_with("near-max");
        seq_job(ctx, prop, &sp.cfg, &sp.alphabet, *a, sp.depth, &mut out, |ops, last, out| {
            if near_max {
                oracle_node_scaled(prop, &sp.cfg, ops, last, out);
            } else {
                oracle_node(prop, &sp.cfg, ops, last, out);
            }
        });
        out.stats.add(&format!("nodes[{}]", sp.label), out.stats.states);
        out
    };
    let outs = par_run(ctx, &jobs, |_, (i, a)| {
        let sp = &spaces[*i];
        let mut out = JobOut::default();
        let near_max = sp.label.starts_with("near-max");
        seq_job(ctx, prop, &sp.cfg, &sp.alphabet, *a, sp.depth, &mut out, |ops, last, out| {
            if near_max {
                oracle_node_scaled(prop, &sp.cfg, ops, last, out);
            } else {
                oracle_node(prop, &sp.cfg, ops, last, out);
            }
        });
        out.stats.add(&format!("nodes[{}]", sp.label), out.stats.states);
        out
    });
    let mut all = merge_jobs(outs);
    if !all.failed() && !jobs_huge.is_empty() {
        let outs = par_run(ctx, &jobs_huge, |_, j| run_one(j));
        let h = merge_jobs(outs);
        all.stats.merge(h.stats);
        all.violations.extend(h.violations);
    }
    // second pass: the same histories (to a reduced depth) with the instance serialized + restored, or
    // replaced by its clone, right before the last operation - the formulas hold for an indicator
    // whatever way it was obtained
    if !all.failed() {
        let cap = if ctx.tier_thorough { 5 } else { 4 };
        let mut jobs2: Vec<(usize, usize, Via)> = vec![];
        for (i, a) in &jobs {
            if spaces[*i].label.starts_with("near-max") || spaces[*i].label == "huge period" {
                continue;
            }
            for v in VIAS {
                jobs2.push((*i, *a, v));
            }
        }
        let outs = par_run(ctx, &jobs2, |_, (i, a, via)| {
            let sp = &spaces[*i];
            let mut out = JobOut::default();
            seq_job_via(ctx, prop, &sp.cfg, &sp.alphabet, *a, sp.depth.min(cap), *via, &mut out, |ops, last, out| {
                oracle_node(prop, &sp.cfg, ops, last, out);
            });
            out.stats.add("nodes[via serde/clone]", out.stats.states);
            out
        });
        all.stats.merge(merge_jobs_stats_only(&outs));
        for o in outs {
            all.violations.extend(o.violations);
        }
    }
    all
}

fn merge_jobs_stats_only(outs: &[JobOut]) -> Stats {
    let mut st = Stats::default();
    for o in outs {
        st.merge(o.stats.clone());
    }
    st
}

/// Deviation-bounded family: a default stream with k deviations.
pub struct Family {
    pub cfg: Cfg,
    /// shared between all members of a family (a private copy per member exhausted memory for period 1024)
    pub base: std::sync::Arc<Vec<Op>>,
    pub base_name: &'static str,
    /// (position, replacement op)
    pub deviations: Vec<(usize, Op)>,
    /// steps (1-based counts of ops executed) at which the oracle is evaluated
    pub check_at: Vec<usize>,
}

pub fn run_family(prop: &str, fam: &Family, out: &mut JobOut) {
    let mut ops: Vec<Op> = fam.base.as_ref().clone();
    for (p, op) in &fam.deviations {
        if *p < ops.len() {
            ops[*p] = *op;
        }
    }
    let mut steps = fam.check_at.clone();
    steps.sort();
    steps.dedup();
    steps.retain(|s| *s >= 1 && *s <= ops.len());
    let last_step = match steps.last() {
        Some(s) => *s,
        None => return,
    };
    out.stats.traces += 1;
    out.stats.states += steps.len() as u64;
    out.stats.transitions += last_step as u64;
    let cfg = fam.cfg;
    let r = std::panic::catch_unwind(std::panic::AssertUnwindSafe(|| {
        let mut s = crate::subjects::make(&cfg);
        let mut res: Vec<(usize, Out)> = vec![];
        let mut si = 0;
        for (i, op) in ops[..last_step].iter().enumerate() {
            let o = s.apply(op);
            if si < steps.len() && steps[si] == i + 1 {
                res.push((i + 1, o));
                si += 1;
            }
        }
        res
    }));
    match r {
        Ok(res) => {
            for (step, o) in res {
                if matches!(ops[step - 1], Op::Reset) {
                    continue;
                }
                out.stats.seen_output(&o);
                oracle_node(prop, &cfg, &ops[..step], &o, out);
                if out.failed() {
                    return;
                }
            }
        }
        Err(_) => out.fail(
            Violation::new(prop, &cfg, &ops[..last_step], "panic")
                .obs("panic".into())
                .exp("a return value".into())
                .det(format!("family {} deviations {:?}", fam.base_name, fam.deviations.iter().map(|d| d.0).collect::<Vec<_>>())),
        ),
    }
}

pub fn base_patterns_scalar(len: usize) -> Vec<(&'static str, std::sync::Arc<Vec<Op>>)> {
    let v: Vec<(&'static str, Vec<Op>)> = vec![
        ("ramp-up", (0..len).map(|i| Op::S(1.0 + i as f64)).collect()),
        ("ramp-down", (0..len).map(|i| Op::S((len - i) as f64 * 0.5)).collect()),
        ("alternating", (0..len).map(|i| Op::S(if i % 2 == 0 { 1.0 + (i % 3) as f64 } else { -1.0 - (i % 5) as f64 })).collect()),
        ("constant", (0..len).map(|_| Op::S(5.0)).collect()),
    ];
    v.into_iter().map(|(n, o)| (n, std::sync::Arc::new(o))).collect()
}

/// Tick-grid walks for medium periods: prices on a coarse grid (many exact ties, plateaus, double tops,
/// runs) driven by the seeded LCG, with an occasional reset().  Combinations of two or three events at a
/// particular phase of the ring (a tie, k ordinary inputs, a new extreme exactly when the tied value
/// leaves) occur many times per stream for every period 6..40.
pub fn tick_walk(len: usize, seed: u64, bars: bool, positive: bool, with_reset: bool) -> std::sync::Arc<Vec<Op>> {
    let mut lcg = crate::alpha::Lcg::new(seed ^ 0x71c4);
    let mut level: i64 = 40;
    let mut v = Vec::with_capacity(len);
    for i in 0..len {
        let r = lcg.next_u64() >> 20;
        // steps: mostly 0 / +-1, sometimes +-2..4; sticky plateaus
        let step = match r % 16 {
            0..=5 => 0,
            6..=8 => 1,
            9..=11 => -1,
            12 => 2,
            13 => -2,
            14 => 4,
            _ => -3,
        };
        level = (level + step).clamp(if positive { 4 } else { -60 }, 120);
        if !positive && r % 97 == 0 {
            level = -level;
        }
        if with_reset && i > 0 && (r >> 8) % 211 == 0 {
            v.push(Op::Reset);
            continue;
        }
        let x = level as f64 * 0.25;
        if bars {
            // wicks on the same grid; close at high / low / mid
            let up = ((r >> 4) % 3) as f64 * 0.25;
            let dn = ((r >> 6) % 3) as f64 * 0.25;
            let c = match (r >> 9) % 3 {
                0 => x + up,
                1 => x - dn,
                _ => x,
            };
            v.push(Op::B(Bar { o: x, h: x + up, l: x - dn, c, v: ((r >> 11) % 4) as f64 }));
        } else {
            v.push(Op::S(x));
        }
    }
    std::sync::Arc::new(v)
}

/// Length of the "long horizon" streams: past 2^22 calls on one instance (periodic maintenance code - a
/// re-synchronisation every 2^20 or 2^22 updates - runs for the first time there).
pub fn horizon_len(thorough: bool) -> usize {
    if thorough {
        (1 << 23) + 4096
    } else {
        (1 << 22) + 4096
    }
}

/// Steps (1-based) at which a long-horizon run is judged: around every power of two from 2^10 on, one
/// window later, and at the end.
pub fn horizon_checkpoints(h: usize, n: usize) -> Vec<usize> {
    let mut v = vec![h];
    let mut k = 10;
    while (1usize << k) <= h {
        let p = 1usize << k;
        for s in [p - 1, p, p + 1, p + 2, p + n, p + n + 1, p + 2 * n + 3] {
            if s >= 1 && s <= h {
                v.push(s);
            }
        }
        k += 1;
    }
    v.sort();
    v.dedup();
    v
}

/// 2^32 + 2048 calls on ONE instance (a call / tick counter in a 32-bit type wraps there) on an LCG-driven
/// 64-level price grid; returns the last 4096 operations and outputs (so the caller can judge the steps
/// around and after the wrap), or None if a call panicked (with the number of completed calls).
pub const CALLS_PAST_2_32: u64 = (1u64 << 32) + 2048;

pub fn run_past_2_32(cfg: &Cfg, seed: u64) -> Result<(Vec<Op>, Vec<Out>), u64> {
    const KEEP: usize = 4096;
    // the wrap sits in the middle of the kept calls (numbers 2^32 - 2047 ..= 2^32 + 2048)
    let total: u64 = CALLS_PAST_2_32;
    let bars = !cfg.kind.has_scalar();
    let mut ring_ops: Vec<Op> = vec![Op::S(0.0); KEEP];
    let mut ring_out: Vec<Out> = vec![Out::NONE; KEEP];
    let mut done = 0u64;
    let r = std::panic::catch_unwind(std::panic::AssertUnwindSafe(|| {
        let mut s = crate::subjects::make(cfg);
        let mut st = seed | 1;
        for t in 0..total {
            st = st.wrapping_mul(6364136223846793005).wrapping_add(1442695040888963407);
            let x = 1.0 + (st >> 58) as f64 * 0.25;
            let op = if bars {
                let up = ((st >> 50) & 3) as f64 * 0.25;
                let dn = ((st >> 48) & 3) as f64 * 0.25;
                Op::B(Bar { o: x, h: x + up, l: x - dn, c: if (st >> 47) & 1 == 0 { x + up } else { x }, v: ((st >> 44) & 3) as f64 })
            } else {
                Op::S(x)
            };
            let o = s.apply(&op);
            if t >= total - KEEP as u64 {
                let i = (t % KEEP as u64) as usize;
                ring_ops[i] = op;
                ring_out[i] = o;
            }
            done = t + 1;
        }
    }));
    if r.is_err() {
        return Err(done);
    }
    // unroll the rings into chronological order
    let start = (total % KEEP as u64) as usize;
    let ops: Vec<Op> = (0..KEEP).map(|k| ring_ops[(start + k) % KEEP]).collect();
    let outs: Vec<Out> = (0..KEEP).map(|k| ring_out[(start + k) % KEEP]).collect();
    Ok((ops, outs))
}

/// Families (one per configuration and seed) over `tick_walk`, every step checked.
pub fn tick_walk_families(cfgs: &[Cfg], len: usize, seed: u64, bars: bool, positive: bool) -> Vec<Family> {
    let mut f = vec![];
    for (k, s) in [seed, seed.wrapping_add(17)].into_iter().enumerate() {
        let base = tick_walk(len, s, bars, positive, k == 1);
        for cfg in cfgs {
            f.push(Family { cfg: *cfg, base: base.clone(), base_name: if k == 0 { "tick-walk" } else { "tick-walk+reset" }, deviations: vec![], check_at: (1..=len).collect() });
        }
    }
    f
}

pub fn base_patterns_pos(len: usize) -> Vec<(&'static str, std::sync::Arc<Vec<Op>>)> {
    let v: Vec<(&'static str, Vec<Op>)> = vec![
        ("ramp-up", (0..len).map(|i| Op::S(1.0 + i as f64)).collect()),
        ("ramp-down", (0..len).map(|i| Op::S((len - i) as f64 * 0.5 + 1.0)).collect()),
        ("zigzag", (0..len).map(|i| Op::S(if i % 2 == 0 { 3.0 + (i % 3) as f64 } else { 2.0 + (i % 5) as f64 * 0.5 })).collect()),
        ("constant", (0..len).map(|_| Op::S(5.0)).collect()),
    ];
    v.into_iter().map(|(n, o)| (n, std::sync::Arc::new(o))).collect()
}

pub fn base_patterns_bars(len: usize) -> Vec<(&'static str, std::sync::Arc<Vec<Op>>)> {
    let mk = |f: &dyn Fn(usize) -> Bar| -> std::sync::Arc<Vec<Op>> { std::sync::Arc::new((0..len).map(|i| Op::B(f(i))).collect()) };
    vec![
        ("trend-up", mk(&|i| {
            let x = 10.0 + i as f64;
            Bar::hlcv(x + 1.0, x - 1.0, x + 0.5, 1.0 + (i % 4) as f64)
        })),
        ("trend-down", mk(&|i| {
            let x = 10.0 + (len - i) as f64 * 0.5;
            Bar::hlcv(x + 2.0, x - 0.5, x - 0.25, 2.0 + (i % 3) as f64)
        })),
        ("gapping", mk(&|i| {
            let x = if i % 2 == 0 { 20.0 + (i % 7) as f64 } else { 12.0 - (i % 5) as f64 };
            Bar::hlcv(x + 1.0, x - 1.0, x + if i % 3 == 0 { 1.0 } else { -0.5 }, (i % 3) as f64)
        })),
        ("one-price", mk(&|_| Bar::hlcv(5.0, 5.0, 5.0, 1.0))),
    ]
}

/// The steps worth checking around a deviation at position p (0-based) for window n.
pub fn interesting_steps(p: usize, n: usize, len: usize) -> Vec<usize> {
    let mut v = vec![p + 1, p + 2, p + n, p + n + 1, p + n + 2];
    if p + n >= 1 {
        v.push(p + n - 1);
    }
    // wrap points of the ring buffer up to the last step of interest
    let mut w = n;
    while w <= (p + n + 2).min(len) {
        v.push(w);
        v.push(w + 1);
        w += n.max((p + n + 2) / 8);
    }
    v.retain(|s| *s >= 1 && *s <= len);
    v
}

// ---------------------------------------------------------------- long runs

use crate::incref::IncRef;
use crate::oracle::compare_with;
use crate::regimes::{Gen, Regime};

/// One long generated stream on the real indicator, compared at every
/// `stride`-th step (and the first 12) with the incremental double-double
/// reference.  The first 10 steps are also cross-checked against the
/// from-scratch reference (`refm::reference`): a disagreement between the two
/// reference evaluations is a machinery error (returned as Err).
pub fn long_run_incref(prop: &str, cfg: &Cfg, regimes: &[Regime], seglen: usize, m: f64, bars: bool, seed: u64, stride: usize, out: &mut JobOut) -> Result<(), String> {
    let volumes = [1.0, 3.0, 0.0, 2.0, 7.0];
    let mut g = Gen::new(m, seed);
    let mut ir = IncRef::new(cfg);
    let mut head: Vec<Op> = vec![];
    let mut fail: Option<(usize, Vec<Op>, Out, String, String, String)> = None;
    let mut machinery: Option<String> = None;
    let total = regimes.len() * seglen;
    out.stats.traces += 1;
    let r = std::panic::catch_unwind(std::panic::AssertUnwindSafe(|| {
        let mut s = crate::subjects::make(cfg);
        let mut t = 0usize;
        let mut recent: std::collections::VecDeque<Op> = std::collections::VecDeque::new();
        let mut evals = (0u64, 0u64, 0.0f64);
        'o: for r in regimes {
            for i in 0..seglen {
                let op = if bars { Op::B(g.bar(*r, i, &volumes)) } else { Op::S(g.price(*r, i)) };
                t += 1;
                let o = s.apply(&op);
                let rf = ir.step(&op);
                recent.push_back(op);
                if recent.len() > 6 {
                    recent.pop_front();
                }
                if t <= 10 {
                    head.push(op);
                    let full = crate::refm::reference(cfg, &head);
                    for j in 0..rf.n {
                        let (a, b) = (rf.v[j], full.v[j]);
                        if !(a == b || (a - b).abs() <= 1e-13 * a.abs().max(b.abs()).max(1e-300)) && !(rf.den_zero || full.den_zero) {
                            machinery = Some(format!("incremental and from-scratch reference disagree for {} at t={}: {} vs {}", cfg.descr(), t, a, b));
                            break 'o;
                        }
                    }
                }
                if !(t % stride == 0 || t <= 12 || t == total || i < 2) {
                    continue;
                }
                match compare_with(cfg, t, &rf, &o) {
                    Verdict::Ok(w) => {
                        evals.0 += 1;
                        evals.2 = evals.2.max(w);
                    }
                    Verdict::Skip(_) => evals.1 += 1,
                    Verdict::Fail { obs, exp, detail } => {
                        fail = Some((t, recent.iter().copied().collect(), o, obs, exp, detail));
                        break 'o;
                    }
                }
            }
        }
        (t, evals)
    }));
    if let Some(m) = machinery {
        return Err(m);
    }
    let names: Vec<&str> = regimes.iter().map(|r| r.name()).collect();
    match r {
        Ok((t, evals)) => {
            out.stats.transitions += t as u64;
            out.stats.states += evals.0 + evals.1;
            out.stats.evaluations += evals.0;
            out.stats.nontrivial += evals.0;
            out.stats.skipped += evals.1;
            out.stats.ratio(evals.2, 1.0, || format!("{} long run {:?} m={}", cfg.descr(), names, m));
            if let Some((t, recent, _o, obs, exp, detail)) = fail {
                out.fail(
                    Violation::new(prop, cfg, &recent, "long-run-mismatch")
                        .obs(obs)
                        .exp(exp)
                        .det(format!("{} at t={} of a generated stream (regimes {:?}, seglen {}, m={}, {}); ops shown = the last inputs", detail, t, names, seglen, m, if bars { "bars" } else { "scalars" }))
                        .with("generator", format!("regimes={:?} seglen={} m={} bars={} seed={} failing_t={}", names, seglen, m, bars, seed, t)),
                );
            }
        }
        Err(_) => out.fail(Violation::new(prop, cfg, &[], "panic").obs("panic".into()).exp("outputs".into()).det(format!("long run {:?} seglen {}", names, seglen))),
    }
    Ok(())
}

// ------------------------------------------------------- Default instances

/// `Default::default()` instances judged against the reference for the parameters the
/// instance itself REPORTS (period(), multiplier(); documented defaults where there is no
/// accessor): a default whose inner parts disagree with its reported parameters shows here.
pub fn default_instances(prop: &str, kinds: &[crate::subjects::Kind], out: &mut JobOut) {
    use crate::subjects::make_default;
    for &k in kinds {
        let d = match std::panic::catch_unwind(|| make_default(k)) {
            Ok(d) => d,
            Err(_) => {
                out.fail(Violation::new(prop, &k.default_cfg(), &[], "panic").obs("Default::default() panicked".into()).exp("an instance".into()));
                return;
            }
        };
        let mut cfg = k.default_cfg();
        if let Some(p) = d.period() {
            cfg.p[0] = p;
        }
        if let Some(m) = d.multiplier() {
            cfg.mult = m;
        }
        if cfg.periods().iter().any(|p| *p == 0) {
            continue;
        }
        let len = 3 * cfg.max_period() + 3;
        let pats = if k.has_scalar() { base_patterns_pos(len) } else { base_patterns_bars(len) };
        for (name, base) in pats {
            let ops: Vec<Op> = base.as_ref().clone();
            let r = std::panic::catch_unwind(std::panic::AssertUnwindSafe(|| {
                let mut s = make_default(k);
                ops.iter().map(|op| s.apply(op)).collect::<Vec<Out>>()
            }));
            out.stats.traces += 1;
            out.stats.transitions += len as u64;
            match r {
                Ok(outs) => {
                    for i in 0..len {
                        out.stats.states += 1;
                        oracle_node(prop, &cfg, &ops[..=i], &outs[i], out);
                        if out.failed() {
                            if let Some(v) = out.violations.last_mut() {
                                v.detail.push_str(&format!(" [instance obtained from {}::default(), which reports {}; stream {}]", k.rust_type(), cfg.descr(), name));
                                v.extra.insert("constructor".into(), format!("{}::default()", k.rust_type()));
                            }
                            return;
                        }
                    }
                }
                Err(_) => {
                    out.fail(Violation::new(prop, &cfg, &ops, "panic").obs("panic".into()).exp("outputs".into()));
                    return;
                }
            }
        }
    }
}
