//! C16 - DataItem builder accepts exactly the consistent bars and returns what was set.

use crate::engine::*;
use crate::report::CheckResult;
use crate::subjects::{Cfg, Kind};
use crate::types::*;
use serde_json::json;
use ta::errors::TaError;
use ta::{Close, DataItem, High, Low, Open, Volume};

pub const PROP: &str = "C16";

pub const LATTICE: [f64; 10] = [f64::NEG_INFINITY, -2.0, -1.0, -0.0, 0.0, 1.0, 2.0, 3.0, f64::INFINITY, f64::NAN];
const NAMES: [&str; 5] = ["open", "high", "low", "close", "volume"];

type Abs = [Option<f64>; 5];

/// reference model of build()
fn model(s: &Abs) -> Result<[f64; 5], TaError> {
    if s.iter().any(|f| f.is_none()) {
        return Err(TaError::DataItemIncomplete);
    }
    let v: Vec<f64> = s.iter().map(|f| f.unwrap()).collect();
    let (open, high, low, close, volume) = (v[0], v[1], v[2], v[3], v[4]);
    if low <= open && low <= close && low <= high && high >= open && high >= close && volume >= 0.0 {
        Ok([open, high, low, close, volume])
    } else {
        Err(TaError::DataItemInvalid)
    }
}

fn real(path: &[(u8, f64)]) -> Result<DataItem, TaError> {
    let mut b = DataItem::builder();
    for (f, x) in path {
        b = match f {
            0 => b.open(*x),
            1 => b.high(*x),
            2 => b.low(*x),
            3 => b.close(*x),
            _ => b.volume(*x),
        };
    }
    b.build()
}

fn path_text(path: &[(u8, f64)]) -> String {
    let v: Vec<String> = path.iter().map(|(f, x)| format!(".{}({})", NAMES[*f as usize], f2s(*x))).collect();
    format!("DataItem::builder(){}.build()", v.join(""))
}

fn judge(path: &[(u8, f64)], out: &mut JobOut) -> bool {
    let mut abs: Abs = [None; 5];
    for (f, x) in path {
        abs[*f as usize] = Some(*x);
    }
    let want = model(&abs);
    out.stats.transitions += path.len() as u64 + 1;
    out.stats.evaluations += 1;
    let got = match std::panic::catch_unwind(|| real(path)) {
        Ok(g) => g,
        Err(_) => {
            out.fail(Violation::new(PROP, &Cfg::p0(Kind::Obv), &[], "panic").obs("panic".into()).exp(format!("{:?}", want)).det(path_text(path)));
            return false;
        }
    };
    let ok = match (&got, &want) {
        (Err(a), Err(b)) => a == b,
        (Ok(item), Ok(w)) => {
            out.stats.nontrivial += 1;
            let g = [item.open(), item.high(), item.low(), item.close(), item.volume()];
            // the same getters called through a reference to a reference (what closure
            // parameters of iter().filter(|it| ..) receive): method resolution must still
            // reach the item's own impls
            let rr: &&DataItem = &item;
            let g2 = [rr.open(), rr.high(), rr.low(), rr.close(), rr.volume()];
            let c = item.clone();
            (0..5).all(|i| g[i].to_bits() == w[i].to_bits() && g2[i].to_bits() == w[i].to_bits()) && c == *item
        }
        _ => false,
    };
    if !ok {
        let class = match (&got, &want) {
            (Ok(_), Err(_)) => "accepts-inconsistent",
            (Err(_), Ok(_)) => "rejects-consistent",
            (Err(_), Err(_)) => "wrong-error",
            _ => "getter-mismatch",
        };
        out.fail(
            Violation::new(PROP, &Cfg::p0(Kind::Obv), &[], class)
                .obs(match &got {
                    Ok(i) => format!("Ok(open={} high={} low={} close={} volume={})", f2s(i.open()), f2s(i.high()), f2s(i.low()), f2s(i.close()), f2s(i.volume())),
                    Err(e) => format!("Err({:?})", e),
                })
                .exp(match &want {
                    Ok(w) => format!("Ok(open={} high={} low={} close={} volume={})", f2s(w[0]), f2s(w[1]), f2s(w[2]), f2s(w[3]), f2s(w[4])),
                    Err(e) => format!("Err({:?})", e),
                })
                .det(path_text(path))
                .with("builder_calls", path_text(path)),
        );
        return false;
    }
    true
}

/// for the stateright cross-check: canonical path of an abstract state
pub fn canonical_path(idx: &[u8; 5]) -> Vec<(u8, f64)> {
    canonical(idx)
}

/// for the stateright cross-check: does build() after `path` agree with the reference predicate?
pub fn agrees(path: &[(u8, f64)]) -> bool {
    let mut out = JobOut::default();
    judge(path, &mut out)
}

/// canonical path to an abstract state: set fields in index order
fn canonical(idx: &[u8]) -> Vec<(u8, f64)> {
    // idx[f] in 0..=10: 0 = unset, k = LATTICE[k-1]
    (0..5u8).filter(|f| idx[*f as usize] > 0).map(|f| (f, LATTICE[idx[f as usize] as usize - 1])).collect()
}

fn permutations5() -> Vec<[u8; 5]> {
    let mut out = vec![];
    fn rec(cur: &mut Vec<u8>, used: &mut [bool; 5], out: &mut Vec<[u8; 5]>) {
        if cur.len() == 5 {
            out.push([cur[0], cur[1], cur[2], cur[3], cur[4]]);
            return;
        }
        for i in 0..5 {
            if !used[i] {
                used[i] = true;
                cur.push(i as u8);
                rec(cur, used, out);
                cur.pop();
                used[i] = false;
            }
        }
    }
    rec(&mut vec![], &mut [false; 5], &mut out);
    out
}

pub fn run(ctx: &Ctx) -> CheckResult {
    let mut res = CheckResult::new(PROP, "model_checking");
    let th = ctx.tier_thorough;
    // the two error outcomes must be distinguishable (the "iff" of the statement is about two different errors)
    {
        let inc = DataItem::builder().high(2.0).low(1.0).build();
        let inv = DataItem::builder().open(1.0).high(1.0).low(2.0).close(1.0).volume(1.0).build();
        let distinct = match (&inc, &inv) {
            (Err(a), Err(b)) => a != b && format!("{:?}", a) != format!("{:?}", b) && a.to_string() != b.to_string() && *a == TaError::DataItemIncomplete && *b == TaError::DataItemInvalid && *a != TaError::InvalidParameter && *b != TaError::InvalidParameter,
            _ => false,
        };
        res.out.stats.evaluations += 1;
        if !distinct {
            res.out.fail(
                Violation::new(PROP, &Cfg::p0(Kind::Obv), &[], "errors-indistinguishable")
                    .obs(format!("incomplete builder -> {:?} / \"{}\"; inconsistent bar -> {:?} / \"{}\"", inc.as_ref().err(), inc.as_ref().err().map(|e| e.to_string()).unwrap_or_default(), inv.as_ref().err(), inv.as_ref().err().map(|e| e.to_string()).unwrap_or_default()))
                    .exp("Err(DataItemIncomplete) and Err(DataItemInvalid) are two different errors (!=, different Debug and Display)".into())
                    .det("DataItem::builder().high(2).low(1).build() vs DataItem::builder().open(1).high(1).low(2).close(1).volume(1).build()".into()),
            );
        }
    }
    // (a)+(b): all 11^5 abstract states and every transition out of each, split by the first field's value
    let firsts: Vec<u8> = (0..11).collect();
    let outs = par_run(ctx, &firsts, |_, &f0| {
        let mut out = JobOut::default();
        let mut idx = [0u8; 5];
        idx[0] = f0;
        let mut path;
        loop {
            path = canonical(&idx);
            out.stats.states += 1;
            if !judge(&path, &mut out) {
                break;
            }
            // every transition: each of the 50 setter actions, then build (last call wins)
            for f in 0..5u8 {
                for x in LATTICE {
                    path.push((f, x));
                    let ok = judge(&path, &mut out);
                    path.pop();
                    if !ok {
                        return out;
                    }
                }
            }
            // odometer over fields 1..5
            let mut i = 5;
            loop {
                if i == 1 {
                    return out;
                }
                i -= 1;
                if idx[i] < 10 {
                    idx[i] += 1;
                    for j in i + 1..5 {
                        idx[j] = 0;
                    }
                    break;
                }
            }
        }
        out
    });
    res.absorb(merge_jobs(outs));
    // stateright cross-check of (a)+(b): same graph, independent checker
    if !res.out.failed() {
        let x = crate::xcheck::run_builder(ctx.threads);
        res.extra.insert("stateright".into(), json!({"unique_states": x.unique_states, "discoveries": x.discoveries, "max_depth": x.max_depth}));
        res.require(x.unique_states == 161_051, &format!("stateright found {} builder states, seqmc enumerated 161051", x.unique_states));
        res.require(x.discoveries == 0, "stateright reports a discovery on the builder graph although seqmc found no violation");
    }
    // (c): every order of the five setters on every complete tuple
    if !res.out.failed() {
        let perms = permutations5();
        let lat: Vec<usize> = (0..10).collect();
        let outs = par_run(ctx, &lat, |_, &a| {
            let mut out = JobOut::default();
            let mut path: Vec<(u8, f64)> = Vec::with_capacity(5);
            for b in 0..10 {
                for c in 0..10 {
                    for d in 0..10 {
                        for e in 0..10 {
                            let vals = [LATTICE[a], LATTICE[b], LATTICE[c], LATTICE[d], LATTICE[e]];
                            for p in &perms {
                                path.clear();
                                for f in p {
                                    path.push((*f, vals[*f as usize]));
                                }
                                out.stats.traces += 1;
                                if !judge(&path, &mut out) {
                                    return out;
                                }
                            }
                        }
                    }
                }
            }
            out
        });
        res.absorb(merge_jobs(outs));
    }
    // (e): prices that are nearly - but not exactly - equal (1 ulp, 1e-10, 1e-7 apart) and tiny
    // volumes: the accept/reject predicate and the getters must still be exact
    if !res.out.failed() {
        let near = [100.0, 99.99999999999999, 100.00000001, 99.99999995, 100.00001, 3.3, 1.1 + 2.2];
        let vols = [0.0, 1e-300, -1e-300, 5.0];
        let mut out = JobOut::default();
        let mut path: Vec<(u8, f64)> = Vec::with_capacity(5);
        'e: for &o in &near {
            for &h in &near {
                for &l in &near {
                    for &c in &near {
                        for &v in &vols {
                            path.clear();
                            path.extend([(0u8, o), (1, h), (2, l), (3, c), (4, v)]);
                            out.stats.traces += 1;
                            out.stats.states += 1;
                            if !judge(&path, &mut out) {
                                break 'e;
                            }
                        }
                    }
                }
            }
        }
        res.absorb(out);
    }
    // (d): all setter sequences with repetition up to length 6 (7 thorough) over {-1, 1, NaN}
    if !res.out.failed() {
        let sub = [-1.0, 1.0, f64::NAN];
        let acts: Vec<(u8, f64)> = (0..5u8).flat_map(|f| sub.iter().map(move |x| (f, *x))).collect();
        let depth = if th { 7 } else { 6 };
        let firsts: Vec<usize> = (0..acts.len()).collect();
        let outs = par_run(ctx, &firsts, |_, &first| {
            let mut out = JobOut::default();
            let mut path: Vec<(u8, f64)> = vec![];
            for_each_seq(acts.len(), Some(first), depth, |seq| {
                path.clear();
                path.extend(seq.iter().map(|&a| acts[a as usize]));
                out.stats.traces += 1;
                judge(&path, &mut out)
            });
            out
        });
        res.absorb(merge_jobs(outs));
    }
    res.extra.insert("lattice".into(), json!(LATTICE.iter().map(|x| f2s(*x)).collect::<Vec<_>>()));
    res.out.stats.samples.push("DataItem::builder().open(-0.0).high(0.0).low(-0.0).close(0.0).volume(NaN).build() -> Err(DataItemInvalid)".into());
    res.out.stats.samples.push("DataItem::builder().high(2).low(1).build() -> Err(DataItemIncomplete)".into());
    res.rule = "the builder as a state machine: state = (Option<f64>)^5, actions = 5 setters x 10 lattice values, observation = build(); every abstract state reached by replaying a setter path on a fresh real builder and compared with the reference predicate (Incomplete iff a field is unset, else Invalid iff the six comparisons fail, else Ok with bit-exact getters and clone ==); non-trivial = build() returned Ok".into();
    res.bounds = format!("(a) all 11^5 = 161051 abstract states; (b) all 50 transitions out of each; (c) all 120 setter orders on all 10^5 complete tuples; (d) all setter sequences with repetition up to length {} over {{-1, 1, NaN}}; (e) all 7^4 x 4 tuples over nearly-equal prices {{100, 100-1ulp, 100+1e-8, 100-5e-8, 100+1e-5, 3.3, 1.1+2.2}} and volumes {{0, +-1e-300, 5}}", if th { 7 } else { 6 });
    res.assumptions = vec!["exhaustive over the lattice {-inf,-2,-1,-0.0,0.0,1,2,3,+inf,NaN}: every order type of the four prices and every sign class of volume; finite values outside it are not enumerated".into()];
    res
}
