//! C04 - reset() returns every indicator to a state indistinguishable from a fresh one.

use crate::alpha::*;
use crate::engine::*;
use crate::report::CheckResult;
use crate::subjects::{make, Cfg, Subject, ALL_KINDS};
use crate::types::*;
use serde_json::json;
use std::collections::HashMap;

pub const PROP: &str = "C04";

struct CfgOut {
    out: JobOut,
    post_reset_keys: usize,
    fresh_key_hit: bool,
}

/// Compare (prefix, reset, continuation) with fresh(continuation), every
/// continuation of length `len` over `cont`.
fn explore_continuations(cfg: &Cfg, prefix: &[Op], cont: &[Op], len: usize, out: &mut JobOut) {
    let mut ops: Vec<Op> = Vec::with_capacity(prefix.len() + 1 + len);
    for_each_seq_exact(cont.len(), len, |seq| {
        ops.clear();
        ops.extend_from_slice(prefix);
        ops.push(Op::Reset);
        ops.extend(seq.iter().map(|&a| cont[a as usize]));
        let r = std::panic::catch_unwind(std::panic::AssertUnwindSafe(|| {
            let mut a = make(cfg);
            for op in &ops[..prefix.len() + 1] {
                a.apply(op);
            }
            let mut b = make(cfg);
            let mut bad: Option<(usize, Out, Out)> = None;
            for (i, op) in ops[prefix.len() + 1..].iter().enumerate() {
                let oa = a.apply(op);
                let ob = b.apply(op);
                if !out_rel_eq(&oa, &ob, 1e-12) {
                    bad = Some((i, oa, ob));
                    break;
                }
            }
            bad
        }));
        out.stats.traces += 1;
        out.stats.transitions += (prefix.len() + 1 + 2 * len) as u64;
        out.stats.evaluations += len as u64;
        if !prefix.is_empty() {
            out.stats.nontrivial += 1;
        }
        match r {
            Ok(None) => true,
            Ok(Some((i, oa, ob))) => {
                let upto = prefix.len() + 1 + i + 1;
                out.fail(
                    Violation::new(PROP, cfg, &ops[..upto], "reset-differs-from-fresh")
                        .obs(out2s(&oa))
                        .exp(out2s(&ob))
                        .det(format!("output {} after reset differs from a fresh instance fed the same {} continuation inputs", i + 1, i + 1)),
                );
                false
            }
            Err(_) => {
                out.fail(Violation::new(PROP, cfg, &ops, "panic").obs("panic".into()).exp("same outputs as a fresh instance".into()));
                false
            }
        }
    });
}

fn params_text(s: &dyn Subject) -> String {
    format!("{}|{:?}|{:?}", s.disp(), s.period(), s.multiplier().map(|m| m.to_bits()))
}

fn check_cfg(ctx: &Ctx, cfg: &Cfg, dp: usize) -> CfgOut {
    let mut out = JobOut::default();
    let prefix_alpha = with_reset(generic_alphabet(cfg.kind, true));
    let cont_alpha = continuation_alphabet(cfg.kind);
    let n = cfg.max_period();
    // (periods beyond any window: the indicator never leaves warm-up, 4 steps suffice)
    let cont_len = if n > 4096 { 4 } else { (n + 2).max(4) };
    let fresh = make(cfg);
    let fresh_key = state_key(fresh.as_ref(), &[]);
    let fresh_params = params_text(fresh.as_ref());
    // key -> how many prefixes reaching it had their continuations explored
    let mut keys: HashMap<u128, usize> = HashMap::new();
    let mut ops: Vec<Op> = vec![];
    // the empty prefix: reset on a fresh instance changes nothing
    let mut todo: Vec<Vec<Op>> = vec![vec![]];
    let mut capped = false;
    let mut cnt = 0u64;
    for_each_seq(prefix_alpha.len(), None, dp, |seq| {
        cnt += 1;
        if cnt % 4096 == 0 && ctx.out_of_time() {
            capped = true;
            return false;
        }
        ops.clear();
        ops.extend(seq.iter().map(|&a| prefix_alpha[a as usize]));
        out.stats.states += 1;
        out.stats.transitions += ops.len() as u64 + 1;
        let r = std::panic::catch_unwind(std::panic::AssertUnwindSafe(|| {
            let mut s = make(cfg);
            for op in &ops {
                s.apply(op);
            }
            let before = params_text(s.as_ref());
            s.reset();
            let after = params_text(s.as_ref());
            (state_key(s.as_ref(), &[]), before, after)
        }));
        match r {
            Ok((k, before, after)) => {
                if before != fresh_params || after != fresh_params {
                    out.fail(
                        Violation::new(PROP, cfg, &ops, "parameters-changed")
                            .obs(format!("before reset {:?}, after {:?}", before, after))
                            .exp(fresh_params.clone())
                            .det("Display/period()/multiplier() must be unchanged by history and reset".into()),
                    );
                    return false;
                }
                let c = keys.entry(k).or_insert(0);
                // explore continuations for the first 2 prefixes per distinct post-reset state,
                // and for every prefix of length <= 1
                if *c < 2 || ops.len() <= 1 {
                    *c += 1;
                    todo.push(ops.clone());
                }
                true
            }
            Err(_) => {
                out.fail(Violation::new(PROP, cfg, &ops, "panic").obs("panic".into()).exp("reset returns".into()));
                false
            }
        }
    });
    if capped {
        out.stats.capped.push(format!("time cap in prefix enumeration of {}", cfg.descr()));
    }
    if !out.failed() {
        // shortest prefixes first
        todo.sort_by_key(|p| p.len());
        for p in &todo {
            explore_continuations(cfg, p, &cont_alpha, cont_len, &mut out);
            if out.failed() {
                break;
            }
            if ctx.out_of_time() {
                out.stats.capped.push(format!("time cap in continuations of {}", cfg.descr()));
                break;
            }
        }
        out.stats.sample(|| format!("{}: prefix [{}] ; R ; all {}^{} continuations vs fresh", cfg.descr(), ops_text(todo.last().map(|v| v.as_slice()).unwrap_or(&[])), cont_alpha.len(), cont_len));
    }
    out.stats.add("prefixes_with_continuations_explored", todo.len() as u64);
    CfgOut { post_reset_keys: keys.len(), fresh_key_hit: keys.contains_key(&fresh_key), out }
}

/// Long prefixes (every length 0..=3n+3 of four default streams, plus one with a
/// NaN deviation in the middle) -> reset -> a handful of continuations of
/// length n+2 compared with a fresh instance; for periods beyond the
/// exhaustive range.
fn long_prefix_family(ctx: &Ctx, cfg: &Cfg) -> JobOut {
    let mut out = JobOut::default();
    let n = cfg.max_period();
    let len = 3 * n + 3;
    let alpha = generic_alphabet(cfg.kind, true);
    let cont_alpha = continuation_alphabet(cfg.kind);
    let fresh_key = state_key(make(cfg).as_ref(), &[]);
    // four default streams built from the kind's own alphabet
    let streams: Vec<Vec<Op>> = vec![
        (0..len).map(|i| alpha[i % 4]).collect(),
        (0..len).map(|i| alpha[(i / 3) % 4]).collect(),
        (0..len).map(|i| if i == len / 2 { alpha[4] } else { alpha[(i * 7 + 1) % 4] }).collect(),
        (0..len).map(|i| if i % (n + 1) == n { alpha[5] } else { alpha[3 - i % 4] }).collect(),
        // a tick-grid walk (ties, plateaus, runs): reset at every phase of a tie-rich history
        super::refcmp::tick_walk(len, ctx.seed ^ 0x4, !cfg.kind.has_scalar(), true, false).as_ref().clone(),
    ];
    let conts: Vec<Vec<Op>> = vec![
        (0..n + 2).map(|i| cont_alpha[i % 3]).collect(),
        (0..n + 2).map(|i| if i == 0 { cont_alpha[3] } else { cont_alpha[(i + 1) % 3] }).collect(),
        (0..n + 2).map(|i| if i == n { cont_alpha[4] } else { cont_alpha[2 - i % 3] }).collect(),
        (0..n + 2).map(|i| if i == 0 { cont_alpha[5] } else { cont_alpha[i % 3] }).collect(),
    ];
    for st in &streams {
        for l in 0..=len {
            if ctx.out_of_time() {
                out.stats.capped.push("time cap in long-prefix family".into());
                return out;
            }
            let prefix = &st[..l];
            out.stats.states += 1;
            let r = std::panic::catch_unwind(std::panic::AssertUnwindSafe(|| {
                let mut a = make(cfg);
                for op in prefix {
                    a.apply(op);
                }
                a.reset();
                let same_state = state_key(a.as_ref(), &[]) == fresh_key;
                let mut bad = None;
                'c: for (ci, c) in conts.iter().enumerate() {
                    let mut x = a.dup();
                    // the clone is only a convenience here; the reference side is a fresh instance
                    if ci == 0 {
                        x = {
                            let mut y = make(cfg);
                            for op in prefix {
                                y.apply(op);
                            }
                            y.reset();
                            y
                        };
                    }
                    let mut b = make(cfg);
                    for (i, op) in c.iter().enumerate() {
                        let oa = x.apply(op);
                        let ob = b.apply(op);
                        if !out_rel_eq(&oa, &ob, 1e-12) {
                            bad = Some((ci, i, oa, ob));
                            break 'c;
                        }
                    }
                }
                (same_state, bad)
            }));
            out.stats.traces += conts.len() as u64;
            out.stats.transitions += (l + 1 + 2 * conts.len() * (n + 2)) as u64;
            out.stats.evaluations += (conts.len() * (n + 2)) as u64;
            out.stats.nontrivial += 1;
            match r {
                Ok((same, None)) => {
                    if !same {
                        out.stats.count("long-prefix post-reset state differs from fresh (behaviourally equal on tested continuations)");
                    }
                }
                Ok((_, Some((ci, i, oa, ob)))) => {
                    let mut ops = prefix.to_vec();
                    ops.push(Op::Reset);
                    ops.extend_from_slice(&conts[ci][..=i]);
                    out.fail(Violation::new(PROP, cfg, &ops, "reset-differs-from-fresh").obs(out2s(&oa)).exp(out2s(&ob)).det(format!("after a {}-input prefix and reset, continuation output {} differs from a fresh instance", l, i + 1)));
                    return out;
                }
                Err(_) => {
                    let mut ops = prefix.to_vec();
                    ops.push(Op::Reset);
                    out.fail(Violation::new(PROP, cfg, &ops, "panic").obs("panic".into()).exp("same outputs as a fresh instance".into()));
                    return out;
                }
            }
        }
    }
    out
}

pub fn run(ctx: &Ctx) -> CheckResult {
    let mut res = CheckResult::new(PROP, "model_checking");
    let th = ctx.tier_thorough;
    let dp = if th { 6 } else { 4 };
    let mut cfgs = vec![];
    for k in ALL_KINDS {
        cfgs.extend(generic_cfgs(k, &[1, 2, 3, 4], &[1, 2, 3]));
    }
    // heavier first
    cfgs.sort_by_key(|c| std::cmp::Reverse(if c.max_period() > 4096 { 4 } else { c.max_period() }));
    let outs = par_run(ctx, &cfgs, |_, cfg| check_cfg(ctx, cfg, dp));
    let mut rows = vec![];
    let mut max_keys = 0;
    for (cfg, o) in cfgs.iter().zip(outs) {
        rows.push(json!({"subject": cfg.descr(), "distinct_post_reset_states": o.post_reset_keys, "includes_fresh_state": o.fresh_key_hit}));
        max_keys = max_keys.max(o.post_reset_keys);
        res.absorb(o.out);
    }
    if !res.out.failed() {
        let periods: Vec<usize> = if th { vec![5, 6, 7, 8, 9, 13, 14, 16, 20, 22, 26, 31, 32, 33, 64, 100, 256] } else { vec![5, 6, 8, 9, 14, 16, 22, 32, 64] };
        let mut big = vec![];
        for k in ALL_KINDS {
            big.extend(generic_cfgs(k, &periods, &[5, 9, 14]));
        }
        big.sort_by_key(|c| std::cmp::Reverse(c.max_period()));
        let outs = par_run(ctx, &big, |_, cfg| long_prefix_family(ctx, cfg));
        res.extra.insert("long_prefix_family_configs".into(), json!(big.len()));
        res.absorb(merge_jobs(outs));
    }
    // many resets: 300 one-input sessions each ended by reset(), and 300 consecutive resets after a full
    // window (a generation counter in a narrow type, an "n-th reset" special case)
    if !res.out.failed() {
        let mut mr = vec![];
        for k in ALL_KINDS {
            mr.extend(generic_cfgs(k, &[2, 3], &[2, 3]));
        }
        let outs = par_run(ctx, &mr, |_, cfg| {
            let mut out = JobOut::default();
            let alpha = generic_alphabet(cfg.kind, false);
            let big = |op: &Op, i: usize| -> Op {
                let f = 1000.0 + i as f64;
                match op {
                    Op::S(x) => Op::S(x * f),
                    Op::B(b) => Op::B(Bar { o: b.o * f, h: b.h * f, l: b.l * f, c: b.c * f, v: b.v }),
                    Op::Reset => Op::Reset,
                }
            };
            let n = cfg.max_period();
            for variant in 0..2usize {
                let mut ops: Vec<Op> = vec![];
                if variant == 0 {
                    for i in 0..300usize {
                        ops.push(big(&alpha[i % alpha.len()], i));
                        ops.push(Op::Reset);
                    }
                } else {
                    for i in 0..n + 1 {
                        ops.push(big(&alpha[i % alpha.len()], i));
                    }
                    for _ in 0..300 {
                        ops.push(Op::Reset);
                    }
                }
                let cont: Vec<Op> = (0..n + 3).map(|i| alpha[(i * 3 + 1) % alpha.len()]).collect();
                let r = std::panic::catch_unwind(std::panic::AssertUnwindSafe(|| {
                    let mut a = make(cfg);
                    let mut first_bad: Option<(usize, Out, Out)> = None;
                    for (i, op) in ops.iter().enumerate() {
                        a.apply(op);
                        // after every reset of the run the instance must behave like a fresh one
                        if matches!(op, Op::Reset) && (i % 7 == 1 || i + 1 == ops.len() || (250..270).contains(&(i / if variant == 0 { 2 } else { 1 }))) {
                            let mut x = a.dup();
                            let mut b = make(cfg);
                            for (j, c) in cont.iter().enumerate() {
                                let (oa, ob) = (x.apply(c), b.apply(c));
                                if !out_rel_eq(&oa, &ob, 1e-12) {
                                    first_bad = Some((i * 1000 + j, oa, ob));
                                    break;
                                }
                            }
                            if first_bad.is_some() {
                                break;
                            }
                        }
                    }
                    first_bad
                }));
                out.stats.traces += 1;
                out.stats.transitions += ops.len() as u64;
                out.stats.evaluations += 300;
                out.stats.nontrivial += 1;
                match r {
                    Ok(None) => {}
                    Ok(Some((code, oa, ob))) => {
                        let (i, j) = (code / 1000, code % 1000);
                        let mut full = ops[..=i].to_vec();
                        full.extend_from_slice(&cont[..=j]);
                        out.fail(
                            Violation::new(PROP, cfg, &full, "reset-differs-from-fresh")
                                .obs(out2s(&oa))
                                .exp(out2s(&ob))
                                .det(format!("after {} operations ({}), output {} of the continuation differs from a fresh instance", i + 1, if variant == 0 { "one-input sessions each ended by reset()" } else { "a full window followed by consecutive resets" }, j + 1)),
                        );
                        return out;
                    }
                    Err(_) => {
                        out.fail(Violation::new(PROP, cfg, &ops, "panic").obs("panic".into()).exp("reset returns".into()));
                        return out;
                    }
                }
            }
            out
        });
        res.absorb(merge_jobs(outs));
    }
    // lifecycle state graph: Reset checked in EVERY reachable state (fixpoint where the graph is finite)
    if !res.out.failed() {
        let (o, grows) = super::graph::run_all(ctx, PROP, super::graph::Fork::Reset, if th { &[1, 2, 3, 4, 5] } else { &[1, 2, 3, 4] }, &[1, 2], if th { 150_000 } else { 5_000 }, if th { 16 } else { 10 });
        let fixpoints = grows.iter().filter(|r| r["fixpoint"] == true).count();
        // stateright cross-check of the finite lifecycle graphs (independent checker, same model)
        let mut xrows = vec![];
        if !o.failed() {
            use crate::subjects::Kind;
            for n in 1..=(if th { 4 } else { 3 }) {
                for k in [Kind::Sma, Kind::Wma, Kind::Mad, Kind::Max, Kind::FastStoch, Kind::Er, Kind::Roc] {
                    let cfg = Cfg::p1(k, n);
                    let mine = grows.iter().find(|r| r["subject"] == cfg.descr()).map(|r| (r["states"].as_u64().unwrap_or(0), r["fixpoint"] == true));
                    if let Some((states, true)) = mine {
                        let x = crate::xcheck::run_lifecycle(&cfg, &super::graph::exact_alphabet(k), ctx.threads, 2 * states as usize + 1000);
                        xrows.push(json!({"subject": cfg.descr(), "stateright_unique_states": x.unique_states, "seqmc_states": states, "discoveries": x.discoveries}));
                        res.require(x.unique_states as u64 == states, &format!("{}: stateright found {} lifecycle states, seqmc {}", cfg.descr(), x.unique_states, states));
                        res.require(x.discoveries == 0, &format!("{}: stateright reports reset() not reaching the fresh state although seqmc found no violation", cfg.descr()));
                    }
                }
            }
        }
        res.extra.insert("stateright_crosscheck".into(), json!(xrows));
        res.extra.insert("lifecycle_graph".into(), json!(grows));
        res.extra.insert("lifecycle_graph_fixpoints".into(), json!(fixpoints));
        res.absorb(o);
    }
    // LAST (a change that turns such a period into a window size would exhaust memory: every other stage
    // has reported by then): periods at and beyond 2^32 for the indicators that allocate no window of that size
    if !res.out.failed() {
        use crate::subjects::Kind;
        let mut hc = vec![];
        for &n in &[(1usize << 32) + 2, usize::MAX] {
            hc.push(Cfg::p1(Kind::Ema, n));
            hc.push(Cfg::p1(Kind::Atr, n));
            hc.push(Cfg::p1(Kind::Rsi, n));
            hc.push(Cfg::pm(Kind::Kc, n, 2.0));
            hc.push(Cfg::p3(Kind::Macd, n, 5, n));
            hc.push(Cfg::p3(Kind::Ppo, 3, n, 2));
            hc.push(Cfg::p2(Kind::SlowStoch, 3, n));
        }
        let outs = par_run(ctx, &hc, |_, cfg| check_cfg(ctx, cfg, dp));
        for o in outs {
            res.absorb(o.out);
        }
    }
    res.extra.insert("post_reset_states".into(), json!(rows));
    res.extra.insert("max_distinct_post_reset_states".into(), json!(max_keys));
    res.rule = "case = (configuration, prefix history incl. NaN/inf/extreme values and resets, reset(), continuation): every continuation of length max(n+2,4) over finite values + NaN + inf compared step by step (1e-12 relative, NaN==NaN) with a fresh instance; continuations are explored for the first two prefixes reaching each distinct post-reset concrete state and for all prefixes of length <= 1; non-trivial = non-empty prefix".into();
    res.bounds = format!("all 22 indicators, periods 1..4 (tuples over {{1,2,3}}; periods 2^32+2 and usize::MAX for EMA/ATR/RSI/KC/MACD/PPO/SLOW_STOCH with 4-step continuations), every prefix in seq(4 values + 4 special + reset, {dp}), every continuation of length max(n+2,4) over 5 symbols; plus 300 one-input sessions each ended by reset() and 300 consecutive resets (continuation vs fresh after the resets); plus long-prefix family: every prefix length 0..=3n+3 of 4 default streams (incl. NaN/inf deviations) -> reset -> 3 continuations of n+2 inputs for periods up to {}", if th { 256 } else { 64 });
    res.assumptions = vec!["two instances with identical bincode bytes and identical Debug rendering have identical futures (used only to de-duplicate continuation exploration; every reported difference is a real execution)".into()];
    res
}
