//! C05 - clones and separate instances are independent and deterministic.

use crate::alpha::*;
use crate::engine::*;
use crate::report::CheckResult;
use crate::sched::*;
use crate::subjects::{make, replay, Cfg, Kind, Subject, ALL_KINDS};
use crate::types::*;
use serde_json::json;
use ta::DataItem;

pub const PROP: &str = "C05";

/// The three live objects of a harness instance.
/// 0 = original (after history h), 1 = its clone, 2 = unrelated instance of the
/// same type with another period (fresh).
struct Scenario {
    cfg: Cfg,
    other: Cfg,
    h: Vec<Op>,
    conts: [Vec<Op>; 3],
}

impl Scenario {
    /// Expected outputs: each object's own operations replayed on a fresh
    /// instance on the main thread.
    fn expected(&self) -> [Vec<Out>; 3] {
        let mut full0 = self.h.clone();
        full0.extend_from_slice(&self.conts[0]);
        let mut full1 = self.h.clone();
        full1.extend_from_slice(&self.conts[1]);
        let e0 = replay(&self.cfg, &full0)[self.h.len()..].to_vec();
        let e1 = replay(&self.cfg, &full1)[self.h.len()..].to_vec();
        let e2 = replay(&self.other, &self.conts[2]);
        [e0, e1, e2]
    }
    fn violation(&self, class: &str, sched_text: String, obj: usize, step: usize, got: &Out, want: &Out) -> Violation {
        let mut ops = self.h.clone();
        ops.extend_from_slice(&self.conts[obj.min(1)]);
        let name = ["original", "clone", "unrelated instance"][obj];
        Violation::new(PROP, if obj == 2 { &self.other } else { &self.cfg }, &ops, class)
            .obs(out2s(got))
            .exp(out2s(want))
            .det(format!(
                "{}: output {} of its continuation is not bit-identical to a fresh instance replaying the same operations; clone taken after {} ops; continuations O=[{}] C=[{}] U({})=[{}]",
                name,
                step + 1,
                self.h.len(),
                ops_text(&self.conts[0]),
                ops_text(&self.conts[1]),
                self.other.descr(),
                ops_text(&self.conts[2])
            ))
            .with("schedule", sched_text)
    }
}

fn sched_text(merge: &[u8], assign: Option<&[u8]>, clone_worker: Option<u8>) -> String {
    let names = ['O', 'C', 'U'];
    let steps: Vec<String> = merge
        .iter()
        .enumerate()
        .map(|(i, o)| match assign {
            Some(a) => format!("{}@w{}", names[*o as usize], a[i]),
            None => format!("{}", names[*o as usize]),
        })
        .collect();
    format!("clone@{} then {}", clone_worker.map(|w| format!("w{}", w)).unwrap_or("main".into()), steps.join(" "))
}

/// Run one schedule on the main thread only (all merges, one thread).
fn run_inline(sc: &Scenario, merge: &[u8], exp: &[Vec<Out>; 3], out: &mut JobOut) -> bool {
    let r = std::panic::catch_unwind(std::panic::AssertUnwindSafe(|| {
        let mut o = make(&sc.cfg);
        for op in &sc.h {
            o.apply(op);
        }
        let c = o.dup();
        let u = make(&sc.other);
        let mut objs: [Box<dyn Subject>; 3] = [o, c, u];
        let mut idx = [0usize; 3];
        for &m in merge {
            let m = m as usize;
            let got = objs[m].apply(&sc.conts[m][idx[m]]);
            if !got.bits_eq(&exp[m][idx[m]]) {
                return Some((m, idx[m], got));
            }
            idx[m] += 1;
        }
        None
    }));
    out.stats.traces += 1;
    out.stats.transitions += merge.len() as u64 + 1;
    out.stats.evaluations += merge.len() as u64;
    match r {
        Ok(None) => true,
        Ok(Some((m, i, got))) => {
            out.fail(sc.violation("not-independent", sched_text(merge, None, None), m, i, &got, &exp[m][i]));
            false
        }
        Err(_) => {
            out.fail(Violation::new(PROP, &sc.cfg, &sc.h, "panic").obs("panic".into()).exp("outputs".into()).with("schedule", sched_text(merge, None, None)));
            false
        }
    }
}

/// Run one schedule with real worker threads.
fn run_threads(pool: &Pool, sc: &Scenario, merge: &[u8], assign: &[u8], clone_worker: u8, exp: &[Vec<Out>; 3], out: &mut JobOut) -> bool {
    let mut o = make(&sc.cfg);
    for op in &sc.h {
        o.apply(op);
    }
    let st = sched_text(merge, Some(assign), Some(clone_worker));
    let (o, c) = match pool.clone_on(clone_worker as usize, o) {
        Some(x) => x,
        None => {
            out.fail(Violation::new(PROP, &sc.cfg, &sc.h, "panic").obs("panic in clone".into()).exp("a clone".into()).with("schedule", st));
            return false;
        }
    };
    let u = make(&sc.other);
    let mut objs: [Option<Box<dyn Subject>>; 3] = [Some(o), Some(c), Some(u)];
    let mut idx = [0usize; 3];
    out.stats.traces += 1;
    out.stats.transitions += merge.len() as u64 + 1;
    out.stats.evaluations += merge.len() as u64;
    for (k, &m) in merge.iter().enumerate() {
        let m = m as usize;
        let s = objs[m].take().unwrap();
        match pool.apply(assign[k] as usize, s, sc.conts[m][idx[m]]) {
            Some((s, got)) => {
                objs[m] = Some(s);
                if !got.bits_eq(&exp[m][idx[m]]) {
                    out.fail(sc.violation("not-independent", st, m, idx[m], &got, &exp[m][idx[m]]));
                    return false;
                }
                idx[m] += 1;
            }
            None => {
                out.fail(Violation::new(PROP, &sc.cfg, &sc.h, "panic").obs("panic".into()).exp("outputs".into()).with("schedule", st));
                return false;
            }
        }
    }
    true
}

fn other_cfg(cfg: &Cfg) -> Cfg {
    let mut o = *cfg;
    for p in o.p.iter_mut().take(cfg.kind.nperiods()) {
        *p = if *p == 1 { 2 } else { *p + 1 };
    }
    if cfg.kind.has_mult() {
        o.mult = cfg.mult + 1.0;
    }
    o
}

fn check_cfg(ctx: &Ctx, cfg: &Cfg, k_workers: usize, cont_len: usize, hist_depth: usize, thread_hist_depth: usize, mode: u8) -> JobOut {
    // full merges x assignments product: empty history (quick), histories up to length 1 (thorough)
    let full_product_hist: usize = if ctx.tier_thorough { 1 } else { 0 };
    let mut out = JobOut::default();
    let alpha = match mode {
        0 => generic_alphabet(cfg.kind, false),
        1 => roughen(&generic_alphabet(cfg.kind, false)),
        // prices shifted by -1: zeros among the inputs (zero bases, zero ranges: the rare branches
        // where a "warn once" flag or a cached special case would live)
        _ => generic_alphabet(cfg.kind, false)
            .iter()
            .map(|op| match op {
                Op::S(x) => Op::S(x - 1.0),
                Op::B(b) => Op::B(Bar { o: b.o - 1.0, h: b.h - 1.0, l: b.l - 1.0, c: b.c - 1.0, v: b.v }),
                Op::Reset => Op::Reset,
            })
            .collect(),
    };
    let other = other_cfg(cfg);
    let pool = Pool::new(k_workers);
    let counts = vec![cont_len; 3];
    let all_merges = merges(&counts);
    let total = cont_len * 3;
    let all_assign = assignments(total, k_workers);
    // canonical merges for the thread-assignment product: sequential, reversed, round-robin
    let canon: Vec<Vec<u8>> = {
        let seq: Vec<u8> = (0..3u8).flat_map(|o| std::iter::repeat(o).take(cont_len)).collect();
        let rev: Vec<u8> = seq.iter().rev().copied().collect();
        let rr: Vec<u8> = (0..total).map(|i| (i % 3) as u8).collect();
        vec![seq, rev, rr]
    };
    let mut hists: Vec<Vec<Op>> = vec![vec![]];
    for_each_seq(alpha.len(), None, hist_depth, |seq| {
        hists.push(seq.iter().map(|&a| alpha[a as usize]).collect());
        true
    });
    for h in &hists {
        if out.failed() {
            break;
        }
        if ctx.out_of_time() {
            out.stats.capped.push(format!("time cap in {}", cfg.descr()));
            break;
        }
        out.stats.states += 1;
        // fixed, pairwise different continuations
        let conts: [Vec<Op>; 3] = [
            (0..cont_len).map(|i| alpha[i % alpha.len()]).collect(),
            (0..cont_len).map(|i| alpha[(i + 2) % alpha.len()]).collect(),
            (0..cont_len).map(|i| alpha[(i + 1) % alpha.len()]).collect(),
        ];
        let sc = Scenario { cfg: *cfg, other, h: h.clone(), conts };
        let exp = match std::panic::catch_unwind(std::panic::AssertUnwindSafe(|| sc.expected())) {
            Ok(e) => e,
            Err(_) => {
                out.fail(Violation::new(PROP, cfg, h, "panic").obs("panic".into()).exp("outputs".into()));
                break;
            }
        };
        // (A) every merge, one thread
        for m in &all_merges {
            if !run_inline(&sc, m, &exp, &mut out) {
                break;
            }
        }
        if out.failed() {
            break;
        }
        out.stats.add("schedules_all_merges_one_thread", all_merges.len() as u64);
        // (B) every worker assignment (up to renaming) x canonical merges x clone worker, real threads
        if h.len() <= thread_hist_depth {
            'b: for m in &canon {
                for a in &all_assign {
                    for cw in 0..k_workers.min(2) as u8 {
                        if !run_threads(&pool, &sc, m, a, cw, &exp, &mut out) {
                            break 'b;
                        }
                        out.stats.count("schedules_threads");
                        out.stats.nontrivial += 1;
                    }
                }
            }
        }
        if out.failed() {
            break;
        }
        // (B') the FULL product: every merge x every worker assignment (up to renaming) x clone worker,
        // for the shortest histories
        if mode == 0 && h.len() <= full_product_hist {
            'p: for m in &all_merges {
                for a in &all_assign {
                    for cw in 0..k_workers.min(2) as u8 {
                        if !run_threads(&pool, &sc, m, a, cw, &exp, &mut out) {
                            break 'p;
                        }
                        out.stats.count("schedules_threads_full_product");
                        out.stats.nontrivial += 1;
                    }
                }
            }
        }
        if out.failed() {
            break;
        }
        // (C) every pair of continuations for original and clone, three sequential schedules
        let cl = 2usize;
        let mut oc = vec![];
        for_each_seq_exact(alpha.len(), cl, |s| {
            oc.push(s.iter().map(|&a| alpha[a as usize]).collect::<Vec<Op>>());
            true
        });
        let m3: [Vec<u8>; 3] = [vec![0, 0, 1, 1], vec![1, 1, 0, 0], vec![0, 1, 0, 1]];
        'c: for a in &oc {
            for b in &oc {
                let sc2 = Scenario { cfg: *cfg, other, h: h.clone(), conts: [a.clone(), b.clone(), vec![]] };
                let exp2 = match std::panic::catch_unwind(std::panic::AssertUnwindSafe(|| sc2.expected())) {
                    Ok(e) => e,
                    Err(_) => continue,
                };
                for m in &m3 {
                    if !run_inline(&sc2, m, &exp2, &mut out) {
                        break 'c;
                    }
                    out.stats.count("schedules_all_continuations");
                }
            }
        }
        out.stats.sample(|| format!("{} h=[{}]: {} merges x 1 thread + {} canonical merges x {} worker assignments x 2 clone workers + {} continuation pairs x 3 schedules", cfg.descr(), ops_text(h), all_merges.len(), canon.len(), all_assign.len(), oc.len() * oc.len()));
    }
    out
}

/// (D) clone fidelity over LONG continuations: a clone taken after every
/// history (short exhaustive ones and every prefix of two default streams up
/// to 2n+2) must follow, for every continuation of n+2 inputs, a fresh instance
/// replaying the same operations - while the original is fed a different
/// continuation in between (alternating steps).
fn long_continuations(ctx: &Ctx, cfg: &Cfg, hist_depth: usize, rough: bool) -> JobOut {
    let mut out = JobOut::default();
    let alpha = if rough { roughen(&generic_alphabet(cfg.kind, false)) } else { generic_alphabet(cfg.kind, false) };
    let n = cfg.max_period();
    let clen = n + 2;
    let mut hists: Vec<Vec<Op>> = vec![vec![]];
    // histories may contain resets: a clone taken right after (or some inputs after) a reset
    let halpha = with_reset(alpha.clone());
    for_each_seq(halpha.len(), None, hist_depth, |seq| {
        hists.push(seq.iter().map(|&a| halpha[a as usize]).collect());
        true
    });
    for l in hist_depth + 1..=2 * n + 2 {
        hists.push((0..l).map(|i| alpha[(i * 3 + 1) % alpha.len()]).collect());
        hists.push((0..l).map(|i| alpha[(i / 2) % alpha.len()]).collect());
    }
    let calpha = &alpha[..3];
    let mut cont: Vec<Op> = vec![];
    for h in &hists {
        if ctx.out_of_time() {
            out.stats.capped.push(format!("time cap in long continuations of {}", cfg.descr()));
            break;
        }
        out.stats.states += 1;
        let ok = for_each_seq_exact(calpha.len(), clen, |seq| {
            cont.clear();
            cont.extend(seq.iter().map(|&a| calpha[a as usize]));
            let r = std::panic::catch_unwind(std::panic::AssertUnwindSafe(|| {
                let mut o = make(cfg);
                for op in h {
                    o.apply(op);
                }
                let mut c = o.dup();
                // expected: fresh instances replaying each object's own operations
                let mut fo = make(cfg);
                let mut fc = make(cfg);
                for op in h {
                    fo.apply(op);
                    fc.apply(op);
                }
                for (i, op) in cont.iter().enumerate() {
                    // the original gets a different input first
                    let oop = alpha[(i + 3) % alpha.len()];
                    let go = o.apply(&oop);
                    let eo = fo.apply(&oop);
                    if !go.bits_eq(&eo) {
                        return Some((0usize, i, go, eo));
                    }
                    let gc = c.apply(op);
                    let ec = fc.apply(op);
                    if !gc.bits_eq(&ec) {
                        return Some((1usize, i, gc, ec));
                    }
                }
                None
            }));
            out.stats.traces += 1;
            out.stats.transitions += (2 * h.len() + 4 * clen) as u64;
            out.stats.evaluations += 2 * clen as u64;
            match r {
                Ok(None) => true,
                Ok(Some((who, i, got, want))) => {
                    let mut ops = h.clone();
                    if who == 1 {
                        ops.extend_from_slice(&cont[..=i]);
                    } else {
                        ops.extend((0..=i).map(|j| alpha[(j + 3) % alpha.len()]));
                    }
                    out.fail(
                        Violation::new(PROP, cfg, &ops, if who == 1 { "clone-diverges" } else { "not-independent" })
                            .obs(out2s(&got))
                            .exp(out2s(&want))
                            .det(format!("{} output {} of its continuation differs from a fresh instance replaying the same {} + {} operations; clone taken after {} ops; the other object was fed different inputs in between", ["original", "clone"][who], i + 1, h.len(), i + 1, h.len()))
                            .with("schedule", format!("clone@main after {} ops, then alternate original/clone", h.len())),
                    );
                    false
                }
                Err(_) => {
                    out.fail(Violation::new(PROP, cfg, h, "panic").obs("panic".into()).exp("outputs".into()));
                    false
                }
            }
        });
        if !ok {
            break;
        }
    }
    out.stats.add("clone_points_with_long_continuations", hists.len() as u64);
    out
}

/// (E) `Clone::clone_from`: `a.clone_from(&b)` between instances of the same type with different
/// parameters and histories must make `a` an exact copy of `b` (and leave `b` untouched).
fn clone_from_stage(ctx: &Ctx, cfg: &Cfg) -> JobOut {
    let mut out = JobOut::default();
    let other = other_cfg(cfg);
    let alpha = roughen(&generic_alphabet(cfg.kind, false));
    let mut hists: Vec<Vec<Op>> = vec![vec![]];
    for_each_seq(alpha.len(), None, 2, |seq| {
        hists.push(seq.iter().map(|&a| alpha[a as usize]).collect());
        true
    });
    let n = cfg.max_period().max(other.max_period());
    for l in 3..=2 * n + 1 {
        hists.push((0..l).map(|i| alpha[(i * 3 + 1) % alpha.len()]).collect());
    }
    let cont: Vec<Op> = (0..n + 2).map(|i| alpha[(i + 1) % alpha.len()]).collect();
    for (dst_cfg, src_cfg) in [(*cfg, other), (other, *cfg), (*cfg, *cfg)] {
        for hd in &hists {
            for hs in &hists {
                if ctx.out_of_time() {
                    out.stats.capped.push("time cap in clone_from stage".into());
                    return out;
                }
                if hd.len() > 2 && hs.len() > 2 && hd.len() != hs.len() {
                    continue; // long x long only on the diagonal
                }
                out.stats.states += 1;
                out.stats.traces += 1;
                let r = std::panic::catch_unwind(std::panic::AssertUnwindSafe(|| {
                    let mut dst = make(&dst_cfg);
                    for op in hd {
                        dst.apply(op);
                    }
                    let mut src = make(&src_cfg);
                    let mut fresh = make(&src_cfg);
                    let mut fresh2 = make(&src_cfg);
                    for op in hs {
                        src.apply(op);
                        fresh.apply(op);
                        fresh2.apply(op);
                    }
                    if !dst.assign_from(src.as_ref()) {
                        return Some((0usize, 9usize, Out::NONE, Out::NONE));
                    }
                    if dst.disp() != src.disp() || dst.period() != src.period() {
                        return Some((0, 8, Out::NONE, Out::NONE));
                    }
                    for (i, op) in cont.iter().enumerate() {
                        let a = dst.apply(op);
                        let e = fresh.apply(op);
                        if !a.bits_eq(&e) {
                            return Some((i, 0, a, e));
                        }
                    }
                    // the source must be unaffected by what was fed to the copy
                    for (i, op) in cont.iter().rev().enumerate() {
                        let a = src.apply(op);
                        let e = fresh2.apply(op);
                        if !a.bits_eq(&e) {
                            return Some((i, 1, a, e));
                        }
                    }
                    None
                }));
                out.stats.transitions += (hd.len() + 3 * hs.len() + 4 * cont.len()) as u64;
                out.stats.evaluations += 2 * cont.len() as u64;
                match r {
                    Ok(None) => {}
                    Ok(Some((i, who, got, want))) => {
                        let mut ops = hs.clone();
                        ops.extend_from_slice(&cont[..=i.min(cont.len() - 1)]);
                        out.fail(
                            Violation::new(PROP, &src_cfg, &ops, if who == 1 { "not-independent" } else { "clone-diverges" })
                                .obs(out2s(&got))
                                .exp(out2s(&want))
                                .det(format!("clone_from: a {} with history [{}] was overwritten by clone_from(&b), b = {} with the history shown; {}", dst_cfg.descr(), ops_text(hd), src_cfg.descr(), match who { 0 => format!("output {} of the copy differs from a fresh replay of b", i + 1), 1 => format!("output {} of b itself changed", i + 1), 8 => "parameters of the copy differ from b".to_string(), _ => "type mismatch".to_string() }))
                                .with("schedule", "clone_from on the main thread".into()),
                        );
                        return out;
                    }
                    Err(_) => {
                        out.fail(Violation::new(PROP, &src_cfg, hs, "panic").obs("panic in clone_from or afterwards".into()).exp("a copy".into()).det(format!("destination {} with history [{}]", dst_cfg.descr(), ops_text(hd))));
                        return out;
                    }
                }
            }
        }
    }
    out
}

/// (F) ambient state: the outputs of an instance must not depend on WHEN it was built - first of
/// its kind, after other instances (same and other parameters) were built, used past their first
/// wrap-around and dropped, while others are alive, back-to-back with siblings fed in lock-step, or
/// on another thread.  Larger periods included (pools / staggering thresholds).
fn ambient_stage(ctx: &Ctx, kind: Kind) -> JobOut {
    let mut out = JobOut::default();
    let periods: &[usize] = if kind.nperiods() == 0 { &[1] } else { &[2, 32, 33, 64, 90] };
    // variant 1: the FIRST input is NaN; variant 2: two inputs, reset(), then +inf as the first input after it
    // (a fallback path for a non-finite first value is the only reader of some ambient state)
    let pv: Vec<(usize, u8)> = periods.iter().flat_map(|&p| [(p, 0u8), (p, 1), (p, 2)]).filter(|(p, v)| *v == 0 || *p <= 33).collect();
    for &(p, variant) in &pv {
        if ctx.out_of_time() {
            out.stats.capped.push("time cap in ambient stage".into());
            return out;
        }
        let cfg = Cfg::of(kind, &[p, 3, 2], 2.0);
        let other = other_cfg(&cfg);
        let n = cfg.max_period();
        let len = 2 * n + n / 2 + 5;
        let alpha = roughen(&generic_alphabet(kind, false));
        // second half of the stream in the subnormal range (x * 2^-1040): a change of the thread's
        // floating-point mode (flush-to-zero) by some earlier call shows only there
        let tiny = |op: &Op| -> Op {
            let f = |x: f64| x * 2f64.powi(-1040);
            match op {
                Op::S(x) => Op::S(f(*x)),
                Op::B(b) => Op::B(Bar { o: f(b.o), h: f(b.h), l: f(b.l), c: f(b.c), v: b.v }),
                Op::Reset => Op::Reset,
            }
        };
        let mut stream: Vec<Op> = (0..len).map(|i| alpha[(i * 5 + i / 3) % alpha.len()]).chain((0..len).map(|i| tiny(&alpha[(i * 7 + 2) % alpha.len()]))).collect();
        let bad = |x: f64| if kind.has_scalar() { Op::S(x) } else { Op::B(Bar { o: x, h: x, l: x, c: x, v: 1.0 }) };
        match variant {
            1 => stream.insert(0, bad(f64::NAN)),
            2 => {
                stream.insert(2, Op::Reset);
                stream.insert(3, bad(f64::INFINITY));
            }
            _ => {}
        }
        let len = stream.len();
        let noise: Vec<Op> = (0..len / 2).map(|i| alpha[(i * 3 + 1) % alpha.len()]).collect();
        let run = |c: &Cfg, ops: &[Op]| -> Vec<Out> {
            let mut s = make(c);
            ops.iter().map(|op| s.apply(op)).collect()
        };
        let r = std::panic::catch_unwind(std::panic::AssertUnwindSafe(|| {
            let mut results: Vec<(&'static str, Vec<Out>)> = vec![];
            results.push(("first instance of its kind", run(&cfg, &stream)));
            // disturbances: an unrelated RSI driven through a long flat market (its averages underflow to 0),
            // same parameters used past the wrap-around and dropped; other parameters kept alive
            {
                let mut rsi = make(&Cfg::p1(Kind::Rsi, 1 + p % 3));
                rsi.next_s(3.0);
                rsi.next_s(4.5);
                for _ in 0..1300 {
                    rsi.next_s(4.5);
                }
            }
            let _ = run(&cfg, &noise);
            let _ = run(&cfg, &noise[..n + 1]);
            let mut alive = make(&other);
            for op in &noise {
                alive.apply(op);
            }
            results.push(("after same-parameter instances were used and dropped, another one alive", run(&cfg, &stream)));
            // siblings built back-to-back and fed in lock-step
            let mut sibs: Vec<Box<dyn Subject>> = (0..4).map(|_| make(&cfg)).collect();
            let mut so: Vec<Vec<Out>> = vec![vec![]; 4];
            for op in &stream {
                for (i, s) in sibs.iter_mut().enumerate() {
                    so[i].push(s.apply(op));
                }
            }
            for (i, o) in so.into_iter().enumerate() {
                results.push((["sibling #0 fed in lock-step", "sibling #1 fed in lock-step", "sibling #2 fed in lock-step", "sibling #3 fed in lock-step"][i], o));
            }
            drop(sibs);
            results.push(("after four siblings were dropped", run(&cfg, &stream)));
            // another OS thread (with its own earlier activity)
            let (cfg2, stream2, noise2) = (cfg, stream.clone(), noise.clone());
            let t = std::thread::spawn(move || {
                let mut w = make(&cfg2);
                for op in &noise2 {
                    w.apply(op);
                }
                drop(w);
                let mut s = make(&cfg2);
                stream2.iter().map(|op| s.apply(op)).collect::<Vec<Out>>()
            })
            .join();
            if let Ok(o) = t {
                results.push(("on another thread after activity there", o));
            }
            drop(alive);
            results
        }));
        out.stats.states += 1;
        match r {
            Ok(results) => {
                out.stats.traces += results.len() as u64;
                out.stats.transitions += (results.len() * len) as u64;
                let (_, first) = &results[0];
                for (name, o) in &results[1..] {
                    out.stats.evaluations += len as u64;
                    out.stats.nontrivial += 1;
                    if let Some(i) = (0..len).find(|&i| !o[i].bits_eq(&first[i])) {
                        out.fail(
                            Violation::new(PROP, &cfg, &stream[..=i], "depends-on-ambient-state")
                                .obs(out2s(&o[i]))
                                .exp(out2s(&first[i]))
                                .det(format!("two instances with the same parameters fed the same history differ at output {}: '{}' vs 'first instance of its kind'", i + 1, name))
                                .with("schedule", name.to_string()),
                        );
                        return out;
                    }
                }
            }
            Err(_) => {
                out.fail(Violation::new(PROP, &cfg, &stream, "panic").obs("panic".into()).exp("outputs".into()));
                return out;
            }
        }
    }
    out
}

/// (H) one large window (8192 values) per windowed indicator: code paths that only exist for big
/// windows (chunked / parallel scans, worker budgets) must still be deterministic.  Twin instances
/// on a quiet thread must agree bit for bit (deterministic part), and so must an instance that runs
/// while twelve other threads keep large-window instances busy (SAMPLING of real schedules).
fn big_window_stage(ctx: &Ctx, kind: Kind, steps: usize) -> JobOut {
    use std::sync::atomic::{AtomicBool, Ordering};
    let mut out = JobOut::default();
    let n = 8192usize;
    let cfg = if kind.has_mult() { Cfg::pm(kind, n, 2.0) } else { Cfg::p1(kind, n) };
    let len = n + steps;
    let op_at = |i: usize| -> Op {
        let x = 50.0 + ((i * 37) % 101) as f64 * 0.37 + (i % 7) as f64 * 0.013;
        if kind.has_scalar() {
            Op::S(x)
        } else {
            Op::B(Bar { o: x, h: x * 1.01, l: x * 0.99, c: x * (0.995 + 0.005 * (i % 3) as f64), v: 1.0 + (i % 4) as f64 })
        }
    };
    let run_one = |with_clone: bool| -> Result<Vec<Out>, ()> {
        std::panic::catch_unwind(std::panic::AssertUnwindSafe(|| {
            let mut s = make(&cfg);
            let mut tail = vec![];
            for i in 0..len {
                if with_clone && i == n {
                    s = s.dup();
                }
                let o = s.apply(&op_at(i));
                if i >= n - 2 {
                    tail.push(o);
                }
            }
            tail
        }))
        .map_err(|_| ())
    };
    let fail = |out: &mut JobOut, what: &str, i: usize, a: &Out, b: &Out| {
        out.fail(
            Violation::new(PROP, &cfg, &[], "not-deterministic")
                .obs(out2s(a))
                .exp(out2s(b))
                .det(format!("{}: output {} of the same stream (x_i = 50 + ((37 i) mod 101)*0.37 + (i mod 7)*0.013, {} inputs) differs from the first quiet run", what, n - 2 + i + 1, len))
                .with("generator", format!("big-window stream, period {}", n)),
        );
    };
    out.stats.traces += 4;
    out.stats.transitions += 4 * len as u64;
    let q = match run_one(false) {
        Ok(q) => q,
        Err(()) => {
            out.fail(Violation::new(PROP, &cfg, &[], "panic").obs("panic".into()).exp("outputs".into()));
            return out;
        }
    };
    for (what, with_clone) in [("a second fresh instance on the same quiet thread", false), ("an instance replaced by its clone once the window was full", true)] {
        match run_one(with_clone) {
            Ok(r) => {
                out.stats.evaluations += r.len() as u64;
                if let Some(i) = (0..r.len()).find(|&i| !r[i].bits_eq(&q[i])) {
                    fail(&mut out, what, i, &r[i], &q[i]);
                    return out;
                }
            }
            Err(()) => {
                out.fail(Violation::new(PROP, &cfg, &[], "panic").obs("panic".into()).exp("outputs".into()));
                return out;
            }
        }
    }
    // under load: other threads keep large-window instances (of the O(window)-per-step kinds) busy
    let stop = AtomicBool::new(false);
    let loaded = std::thread::scope(|sc| {
        for b in 0..12usize {
            let stop = &stop;
            sc.spawn(move || {
                // eight instances of the kind under test (a per-kind global budget / scratch area would be
                // contended by exactly these), four of the O(window)-per-step kinds
                let bk = if b < 8 { kind } else { [Kind::Er, Kind::Mad, Kind::Cci, Kind::Er][b % 4] };
                let bcfg = Cfg::p1(bk, 8192);
                let _ = std::panic::catch_unwind(std::panic::AssertUnwindSafe(|| {
                    let mut s = make(&bcfg);
                    let mut i = 0usize;
                    while !stop.load(Ordering::Relaxed) {
                        let x = 10.0 + ((i * 13 + b) % 89) as f64 * 0.21;
                        let _ = if bk.has_scalar() { s.apply(&Op::S(x)) } else { s.apply(&Op::B(Bar { o: x, h: x * 1.02, l: x * 0.98, c: x, v: 1.0 + (i % 3) as f64 })) };
                        i += 1;
                    }
                }));
            });
        }
        // give the background threads time to fill their windows so that their scans are the big ones
        std::thread::sleep(std::time::Duration::from_millis(150));
        let r = run_one(false);
        stop.store(true, Ordering::Relaxed);
        r
    });
    out.stats.add("big_window_runs_under_load(sampling)", 1);
    let _ = ctx;
    match loaded {
        Ok(r) => {
            out.stats.evaluations += r.len() as u64;
            if let Some(i) = (0..r.len()).find(|&i| !r[i].bits_eq(&q[i])) {
                fail(&mut out, "an instance fed while twelve other threads were feeding large-window instances (eight of the same kind, four of ER / MAD / CCI)", i, &r[i], &q[i]);
            }
        }
        Err(()) => out.fail(Violation::new(PROP, &cfg, &[], "panic").obs("panic".into()).exp("outputs".into())),
    }
    out
}

/// (I) period sweep: an instance's outputs must not depend on which OTHER parameters were used in the
/// process before (a process-wide memo / table keyed by a hash of the period shows only when the
/// colliding period was used just before).  Baseline: digests of the outputs for every period 1..=600
/// computed in two FRESH processes (ascending and descending order - they must agree with each
/// other); then, in this process, for each probe period p in {3, 9, 14, 20} and every q in 1..=600:
/// an instance of period p is driven past its full window, then a fresh instance of period q, whose
/// outputs must have the baseline digest.
const SWEEP_MAX: usize = 600;

/// every period 1..=600, then a few large ones on both sides of 2^12 .. 2^16 (a table or pool sized by the
/// first or the largest user so far)
fn sweep_periods(kind: Kind) -> Vec<usize> {
    let mut v: Vec<usize> = (1..=SWEEP_MAX).collect();
    v.extend([1024usize, 4097]);
    if !matches!(kind, Kind::Mad | Kind::Cci | Kind::Er) {
        v.extend([8192usize, 16384, 16385, 20000, 32769, 65537, 100003]);
    }
    v
}

fn sweep_cfg(kind: Kind, p: usize) -> Cfg {
    if kind.has_mult() {
        Cfg::pm(kind, p, 2.0)
    } else {
        Cfg::p1(kind, p)
    }
}

fn sweep_op(kind: Kind, i: usize) -> Op {
    let x = 50.0 + ((i * 37) % 101) as f64 * 0.37 + (i % 7) as f64 * 0.013;
    if kind.has_scalar() {
        Op::S(x)
    } else {
        Op::B(Bar { o: x, h: x * 1.01, l: x * 0.99, c: x * (0.995 + 0.005 * (i % 3) as f64), v: 1.0 + (i % 4) as f64 })
    }
}

/// digest of the outputs of a fresh instance of period q fed q + 3 inputs; None if it panics
fn sweep_digest(kind: Kind, q: usize) -> Option<u64> {
    std::panic::catch_unwind(std::panic::AssertUnwindSafe(|| {
        let mut s = make(&sweep_cfg(kind, q));
        let mut h = 0xcbf29ce484222325u64;
        for i in 0..q + 3 {
            let o = s.apply(&sweep_op(kind, i));
            for j in 0..o.n as usize {
                h = (h ^ o.v[j].to_bits()).wrapping_mul(0x100000001b3);
            }
        }
        h
    }))
    .ok()
}

/// `mc digest <kind> asc|desc`: one line per period, "q digest" (or "q panic")
pub fn digest_main(kind_name: &str, order: &str) -> i32 {
    let kind = match Kind::from_name(kind_name) {
        Some(k) => k,
        None => return 2,
    };
    let qs: Vec<usize> = if order == "desc" { sweep_periods(kind).into_iter().rev().collect() } else { sweep_periods(kind) };
    for q in qs {
        match sweep_digest(kind, q) {
            Some(d) => println!("{} {:016x}", q, d),
            None => println!("{} panic", q),
        }
    }
    0
}

fn fresh_process_digests(kind: Kind, order: &str) -> Result<std::collections::HashMap<usize, String>, String> {
    let exe = std::env::current_exe().map_err(|e| e.to_string())?;
    let o = std::process::Command::new(exe).args(["digest", kind.name(), order]).output().map_err(|e| e.to_string())?;
    if !o.status.success() {
        return Err(format!("digest helper exited with {:?}", o.status.code()));
    }
    let mut m = std::collections::HashMap::new();
    for l in String::from_utf8_lossy(&o.stdout).lines() {
        let mut it = l.split_whitespace();
        if let (Some(q), Some(d)) = (it.next(), it.next()) {
            if let Ok(q) = q.parse::<usize>() {
                m.insert(q, d.to_string());
            }
        }
    }
    if m.len() != sweep_periods(kind).len() {
        return Err(format!("digest helper printed {} lines", m.len()));
    }
    Ok(m)
}

fn period_sweep_stage(kind: Kind, machinery: &mut Vec<String>) -> JobOut {
    let mut out = JobOut::default();
    let (asc, desc) = match (fresh_process_digests(kind, "asc"), fresh_process_digests(kind, "desc")) {
        (Ok(a), Ok(d)) => (a, d),
        (Err(e), _) | (_, Err(e)) => {
            machinery.push(format!("C05 period sweep: {}", e));
            return out;
        }
    };
    let report = |out: &mut JobOut, q: usize, got: String, want: &str, how: String| {
        let ops: Vec<Op> = (0..q + 3).map(|i| sweep_op(kind, i)).collect();
        out.fail(
            Violation::new(PROP, &sweep_cfg(kind, q), &ops, "not-independent")
                .obs(format!("output digest {}", got))
                .exp(format!("output digest {}", want))
                .det(format!("the outputs of a fresh instance fed the history shown depend on which other instances of the indicator were used in the process before: {}", how))
                .with("setup", how),
        );
    };
    for q in sweep_periods(kind) {
        out.stats.evaluations += 1;
        if asc[&q] != desc[&q] {
            report(&mut out, q, desc[&q].clone(), &asc[&q], "a fresh process running the periods of the sweep (1..=600, then 1024 .. 100003) in descending order vs a fresh process running them in ascending order".into());
            return out;
        }
    }
    for p in [14usize, 9, 20, 3] {
        for q in sweep_periods(kind) {
            if q > SWEEP_MAX && p != 14 {
                continue;
            }
            out.stats.traces += 2;
            out.stats.transitions += (p + q + 6) as u64;
            out.stats.evaluations += 1;
            let _ = sweep_digest(kind, p);
            let got = match sweep_digest(kind, q) {
                Some(d) => format!("{:016x}", d),
                None => "panic".to_string(),
            };
            if got != asc[&q] {
                report(&mut out, q, got, &asc[&q], format!("right after an instance of period {} had been driven past its full window in this process (baseline: a fresh process)", p));
                return out;
            }
        }
    }
    out
}

/// Supplementary, SAMPLING: free-running threads each owning distinct instances.
fn free_running(ctx: &Ctx, rounds: usize, out: &mut JobOut) {
    let threads = 16usize;
    let len = 1500usize;
    let mut jobs: Vec<(Cfg, Vec<Op>, Vec<Out>)> = vec![];
    for (i, k) in ALL_KINDS.iter().enumerate() {
        for j in 0..3usize {
            let cfg = Cfg::of(*k, &[1 + (i + j) % 5, 2 + j, 3], 2.0);
            let alpha = generic_alphabet(*k, false);
            let mut lcg = Lcg::new(ctx.seed ^ (i * 7 + j) as u64);
            let ops: Vec<Op> = (0..len).map(|_| alpha[(lcg.next_u64() % alpha.len() as u64) as usize]).collect();
            let exp = replay(&cfg, &ops);
            jobs.push((cfg, ops, exp));
        }
    }
    for round in 0..rounds {
        let bad = std::sync::Mutex::new(None::<(Cfg, Vec<Op>, Out, Out)>);
        std::thread::scope(|s| {
            for t in 0..threads {
                let jobs = &jobs;
                let bad = &bad;
                s.spawn(move || {
                    // each thread owns its own instances of every job, interleaving them
                    let mut insts: Vec<Box<dyn Subject>> = jobs.iter().map(|(c, _, _)| make(c)).collect();
                    for i in 0..len {
                        for (ji, (cfg, ops, exp)) in jobs.iter().enumerate() {
                            if (ji + t + round) % 4 == 0 {
                                continue; // vary which instances each thread drives
                            }
                            let o = insts[ji].apply(&ops[i]);
                            if !o.bits_eq(&exp[i]) {
                                let mut b = bad.lock().unwrap();
                                if b.is_none() {
                                    *b = Some((*cfg, ops[..=i].to_vec(), o, exp[i]));
                                }
                                return;
                            }
                        }
                    }
                });
            }
        });
        out.stats.add("free_running_thread_rounds(sampling)", 1);
        if let Some((cfg, ops, got, want)) = bad.into_inner().unwrap() {
            out.fail(
                Violation::new(PROP, &cfg, &ops, "not-independent")
                    .obs(out2s(&got))
                    .exp(out2s(&want))
                    .det("16 free-running threads each feeding their own instances: an output differs from the sequential result".into())
                    .with("schedule", "free-running (uncontrolled) threads".into()),
            );
            return;
        }
    }
}

/// Syntactic audit of /repo/src: is there any shared mutable state at all?
pub fn ownership_audit() -> Vec<String> {
    let toks = ["unsafe", "thread_local", "RefCell", "Cell<", "Rc<", "Rc::", "Arc<", "Arc::", "Mutex", "RwLock", "Atomic", "OnceLock", "OnceCell", "LazyLock", "lazy_static", "static mut", "SystemTime", "Instant::", "rand::", "RandomState", "HashMap", "HashSet"];
    let mut hits = vec![];
    fn walk(dir: &std::path::Path, f: &mut dyn FnMut(&std::path::Path)) {
        if let Ok(rd) = std::fs::read_dir(dir) {
            for e in rd.flatten() {
                let p = e.path();
                if p.is_dir() {
                    walk(&p, f);
                } else if p.extension().map(|x| x == "rs").unwrap_or(false) {
                    f(&p);
                }
            }
        }
    }
    let repo = std::env::var("VERIF_REPO_DIR").unwrap_or_else(|_| "/repo".to_string());
    walk(&std::path::Path::new(&repo).join("src"), &mut |p| {
        if let Ok(text) = std::fs::read_to_string(p) {
            let body = match text.find("#[cfg(test)]") {
                Some(i) => &text[..i],
                None => &text[..],
            };
            for (ln, line) in body.lines().enumerate() {
                let l = line.trim_start();
                if l.starts_with("//") {
                    continue;
                }
                for t in toks {
                    if l.contains(t) {
                        hits.push(format!("{}:{}: {}", p.display(), ln + 1, t));
                    }
                }
                if l.starts_with("static ") || l.starts_with("pub static ") || l.contains(" static ") && !l.contains("'static") {
                    hits.push(format!("{}:{}: static item", p.display(), ln + 1));
                }
            }
        }
    });
    hits
}

fn default_vs_new(kind: Kind) -> JobOut {
    let mut out = JobOut::default();
    let mut cfg = kind.default_cfg();
    let rep = std::panic::catch_unwind(|| {
        let d = crate::subjects::make_default(kind);
        (d.period(), d.multiplier())
    });
    match rep {
        Ok((p, m)) => {
            if let Some(p) = p {
                cfg.p[0] = p;
            }
            if let Some(m) = m {
                cfg.mult = m;
            }
        }
        Err(_) => {
            out.fail(Violation::new(PROP, &cfg, &[], "panic").obs("Default::default() panicked".into()).exp("an instance".into()));
            return out;
        }
    }
    if cfg.periods().iter().any(|p| *p == 0) {
        return out;
    }
    let alpha = roughen(&generic_alphabet(kind, false));
    let len = 3 * cfg.max_period() + 5;
    for pat in 0..3usize {
        let ops: Vec<Op> = (0..len).map(|i| alpha[match pat { 0 => i % alpha.len(), 1 => (i * 3 + i / 4) % alpha.len(), _ => (i / 3) % alpha.len() }]).collect();
        let r = std::panic::catch_unwind(std::panic::AssertUnwindSafe(|| {
            let mut d = crate::subjects::make_default(kind);
            let mut n = make(&cfg);
            for (i, op) in ops.iter().enumerate() {
                let (a, b) = (d.apply(op), n.apply(op));
                if !a.bits_eq(&b) {
                    return Some((i, a, b));
                }
            }
            None
        }));
        out.stats.traces += 1;
        out.stats.states += len as u64;
        out.stats.transitions += 2 * len as u64;
        out.stats.evaluations += len as u64;
        match r {
            Ok(None) => {}
            Ok(Some((i, a, b))) => {
                out.fail(
                    Violation::new(PROP, &cfg, &ops[..=i], "default-instance-differs-from-new")
                        .obs(out2s(&a))
                        .exp(out2s(&b))
                        .det(format!("{}::default() reports the parameters of {} but its output {} differs from an instance built with new(those parameters) fed the same history", kind.rust_type(), cfg.descr(), i + 1))
                        .with("constructor", format!("{}::default()", kind.rust_type())),
                );
                return out;
            }
            Err(_) => {
                out.fail(Violation::new(PROP, &cfg, &ops, "panic").obs("panic".into()).exp("outputs".into()));
                return out;
            }
        }
    }
    out
}

pub fn run(ctx: &Ctx) -> CheckResult {
    let mut res = CheckResult::new(PROP, "model_checking");
    let th = ctx.tier_thorough;
    let (k_workers, cont_len, hist_depth, thread_hist_depth, rounds) = if th { (3, 2, 3, 3, 20) } else { (2, 2, 3, 2, 3) };
    let mut cfgs = vec![];
    for k in ALL_KINDS {
        cfgs.extend(generic_cfgs(k, &[1, 3], &[1, 3]).into_iter().filter(|c| c.kind.nperiods() < 2 || c.p[0] != c.p[1] || c.p[0] == 3));
    }
    // each job owns a private worker pool, so jobs run in parallel without sharing threads
    let outs = par_run(ctx, &cfgs, |_, cfg| check_cfg(ctx, cfg, k_workers, cont_len, hist_depth, thread_hist_depth, 0));
    res.absorb(merge_jobs(outs));
    // the same with an inexact alphabet (bit-equality is the oracle: summation order / buffer layout must not matter);
    // thread assignments only for the shortest histories here
    if !res.out.failed() {
        let outs = par_run(ctx, &cfgs, |_, cfg| check_cfg(ctx, cfg, k_workers, cont_len, hist_depth, 0, 1));
        res.absorb(merge_jobs(outs));
    }
    // and with zeros among the inputs
    if !res.out.failed() {
        let outs = par_run(ctx, &cfgs, |_, cfg| check_cfg(ctx, cfg, k_workers, cont_len, hist_depth, 0, 2));
        res.absorb(merge_jobs(outs));
    }
    // (G) Default::default() vs new(the parameters the default instance reports): same parameters,
    // same history -> bit-identical
    if !res.out.failed() {
        let outs = par_run(ctx, &ALL_KINDS, |_, k| default_vs_new(*k));
        res.absorb(merge_jobs(outs));
    }
    // (D) long continuations after the clone
    if !res.out.failed() {
        let mut c2 = vec![];
        for k in ALL_KINDS {
            c2.extend(generic_cfgs(k, if th { &[1, 2, 3, 4, 5, 6] } else { &[1, 2, 3, 4, 5] }, &[2, 4]));
        }
        c2.sort_by_key(|c| std::cmp::Reverse(c.max_period()));
        let outs = par_run(ctx, &c2, |_, cfg| long_continuations(ctx, cfg, if th { 3 } else { 2 }, false));
        res.absorb(merge_jobs(outs));
        if !res.out.failed() {
            let outs = par_run(ctx, &c2, |_, cfg| long_continuations(ctx, cfg, if th { 3 } else { 2 }, true));
            res.absorb(merge_jobs(outs));
        }
    }
    // (F) ambient state (must run before anything else in this process has built large-period instances
    // of a kind - it is still meaningful afterwards, but "first of its kind" is then approximate)
    if !res.out.failed() {
        let outs = par_run(ctx, &ALL_KINDS, |_, k| ambient_stage(ctx, *k));
        res.absorb(merge_jobs(outs));
    }
    // (E') clone_from at medium periods: targets with a long directional / flat / mixed past are overwritten
    // with clone_from(source); the copy must continue exactly like source.clone() on falling, rising and
    // tick-walk continuations (a "hint" field that clone_from forgets to copy)
    if !res.out.failed() {
        let mut c4 = vec![];
        for k in ALL_KINDS {
            c4.extend(generic_cfgs(k, &[9, 14, 20], &[9, 14]));
        }
        let outs = par_run(ctx, &c4, |_, cfg| {
            let mut out = JobOut::default();
            let n = cfg.max_period();
            let bars = !cfg.kind.has_scalar();
            let mk = |x: f64, i: usize| -> Op {
                if bars {
                    Op::B(Bar { o: x, h: x + 0.25 * (i % 3) as f64, l: x - 0.25 * (i % 2) as f64, c: x, v: 1.0 + (i % 3) as f64 })
                } else {
                    Op::S(x)
                }
            };
            let walk = super::refcmp::tick_walk(8 * n + 40, ctx.seed ^ 0x99, bars, true, false);
            let pasts: Vec<(&str, Vec<Op>)> = vec![
                ("falling", (0..3 * n).map(|i| mk(100.0 - 0.25 * i as f64, i)).collect()),
                ("rising", (0..3 * n).map(|i| mk(20.0 + 0.25 * i as f64, i)).collect()),
                ("flat", (0..3 * n).map(|i| mk(33.25, i)).collect()),
                ("walk", super::refcmp::tick_walk(3 * n, ctx.seed ^ 0x55, bars, true, false).as_ref().clone()),
            ];
            for l in [n + 3, 2 * n + 1, 3 * n + 5, 5 * n + 2] {
                let src_hist = &walk[..l];
                let level = match &walk[l - 1] {
                    Op::S(x) => *x,
                    Op::B(b) => b.c,
                    Op::Reset => 10.0,
                };
                let conts: Vec<(&str, Vec<Op>)> = vec![
                    ("falling", (0..2 * n + 4).map(|i| mk(level - 0.25 * (1 + i / 2) as f64, i)).collect()),
                    ("rising", (0..2 * n + 4).map(|i| mk(level + 0.25 * (1 + i / 2) as f64, i)).collect()),
                    ("walk", walk[l..l + 2 * n + 4].to_vec()),
                ];
                for (pname, past) in &pasts {
                    for (cname, cont) in &conts {
                        let r = std::panic::catch_unwind(std::panic::AssertUnwindSafe(|| {
                            let mut src = make(cfg);
                            for op in src_hist {
                                src.apply(op);
                            }
                            let mut t = make(cfg);
                            for op in past {
                                t.apply(op);
                            }
                            t.assign_from(src.as_ref());
                            let mut c = src.dup();
                            for (i, op) in cont.iter().enumerate() {
                                let (a, b) = (t.apply(op), c.apply(op));
                                if !a.bits_eq(&b) {
                                    return Some((i, a, b));
                                }
                            }
                            None
                        }));
                        out.stats.traces += 1;
                        out.stats.transitions += (src_hist.len() + past.len() + 2 * cont.len()) as u64;
                        out.stats.evaluations += cont.len() as u64;
                        match r {
                            Ok(None) => {}
                            Ok(Some((i, a, b))) => {
                                let mut ops = src_hist.to_vec();
                                ops.extend_from_slice(&cont[..=i]);
                                out.fail(
                                    Violation::new(PROP, cfg, &ops, "clone-diverges")
                                        .obs(out2s(&a))
                                        .exp(out2s(&b))
                                        .det(format!("clone_from: an instance of the same parameters with a {} past of {} inputs was overwritten by clone_from(&source) after the first {} operations shown; on the {} continuation its output {} differs from source.clone()", pname, past.len(), src_hist.len(), cname, i + 1)),
                                );
                                return out;
                            }
                            Err(_) => {
                                out.fail(Violation::new(PROP, cfg, src_hist, "panic").obs("panic".into()).exp("outputs".into()));
                                return out;
                            }
                        }
                    }
                }
            }
            out
        });
        res.absorb(merge_jobs(outs));
    }
    // (E) clone_from between different parameters / histories
    if !res.out.failed() {
        let mut c3 = vec![];
        for k in ALL_KINDS {
            c3.extend(generic_cfgs(k, &[1, 2, 3, 5], &[2, 3]));
        }
        let outs = par_run(ctx, &c3, |_, cfg| clone_from_stage(ctx, cfg));
        res.absorb(merge_jobs(outs));
    }
    // lifecycle state graph: clone() checked in EVERY reachable state (fixpoint where the graph is finite)
    if !res.out.failed() {
        let (o, grows) = super::graph::run_all(ctx, PROP, super::graph::Fork::Clone, if th { &[1, 2, 3, 4, 5] } else { &[1, 2, 3, 4] }, &[1, 2], if th { 150_000 } else { 5_000 }, if th { 16 } else { 10 });
        let fixpoints = grows.iter().filter(|r| r["fixpoint"] == true).count();
        res.extra.insert("lifecycle_graph".into(), json!(grows));
        res.extra.insert("lifecycle_graph_fixpoints".into(), json!(fixpoints));
        res.absorb(o);
    }
    // DataItem clone
    if !res.out.failed() {
        let it = DataItem::builder().open(2.0).high(3.0).low(1.0).close(2.5).volume(7.0).build().unwrap();
        let c = it.clone();
        res.out.stats.evaluations += 1;
        if c != it {
            res.out.fail(Violation::new(PROP, &Cfg::p0(Kind::Obv), &[], "dataitem-clone").obs(format!("{:?}", c)).exp(format!("{:?}", it)));
        }
    }
    if !res.out.failed() {
        let mut o = JobOut::default();
        free_running(ctx, rounds, &mut o);
        res.absorb(o);
    }
    // (I) period sweep (one kind at a time: the point is what else happened in the process)
    if !res.out.failed() {
        let kinds: Vec<Kind> = ALL_KINDS.iter().copied().filter(|k| k.nperiods() == 1).collect();
        let mut mach = vec![];
        for k in kinds {
            res.absorb(period_sweep_stage(k, &mut mach));
            if res.out.failed() {
                break;
            }
        }
        res.machinery_errors.extend(mach);
    }
    // (H) large windows, quiet twins and under load - one kind at a time (the load is part of the stage)
    if !res.out.failed() {
        let kinds: Vec<Kind> = ALL_KINDS.iter().copied().filter(|k| k.allocates() && k.nperiods() == 1).collect();
        for k in kinds {
            let o = big_window_stage(ctx, k, if th { 64 } else { 24 });
            res.absorb(o);
            if res.out.failed() {
                break;
            }
        }
    }
    let audit = ownership_audit();
    res.extra.insert("ownership_audit_hits".into(), json!(audit));
    res.extra.insert("workers".into(), json!(k_workers));
    res.require(res.out.stats.counters.get("schedules_threads").copied().unwrap_or(0) > 1 || res.out.failed(), "no multi-thread schedule was executed");
    res.rule = "case = (configuration, history h at which the clone is taken, schedule): objects {original after h, its clone, unrelated instance with other parameters} each get a continuation; a schedule = interleaving of their operations + assignment of every step to a real OS worker thread; oracle = every output bit-identical to a fresh instance replaying that object's own operations on the main thread; non-trivial = schedule executed on >= 1 worker thread other than main".into();
    res.bounds = format!(
        "all 22 indicators, periods {{1,3}}, each part on the exact alphabet and on an inexact one (x -> 0.7x+0.013, so that summation order and buffer layout are observable under bit-equality); every history in seq(4 symbols, {hist_depth}) as clone point; (A) all {} merges of 3x{cont_len} ops on one thread; (B) histories up to length {thread_hist_depth}: 3 canonical merges x all worker assignments up to renaming on {k_workers} real threads x clone taken on worker 0/1; (B') for the empty history (thorough: histories up to length 1) the FULL product of all merges x all worker assignments x clone worker; (C) all 16x16 continuation pairs for original/clone under 3 sequential schedules; (G) Default::default() vs new(reported parameters) bit for bit; the merges also on an alphabet containing zeros; (F) ambient state: instances with the same parameters and history (periods 2, 32, 33, 64, 90) built first / after others were used past their wrap-around and dropped / as lock-step siblings / on another thread must agree bit for bit; (E') periods 9/14/20: clone_from into targets with a falling / rising / flat / tick-walk past vs source.clone() on falling / rising / tick-walk continuations; (E) Clone::clone_from between instances with different parameters and histories (copy must replay like the source, source untouched); (D) periods 1..5(6): clone after every history up to depth 2(3) and after every prefix up to 2n+2 of two default streams, every continuation of n+2 inputs over 3 symbols for the clone while the original is fed different inputs in between; (I) for every period q in 1..=600 (and 1024, 4097, 8192, 16384, 16385, 20000, 32769, 65537, 100003 for the O(1)-per-step indicators) the outputs of a fresh instance that follows an instance of period 3 / 9 / 14 / 20 in this process have the digest computed in two fresh processes (periods ascending / descending); (H) period 8192: twin instances and a clone taken at the full window agree bit for bit on a quiet thread, and (SAMPLING) an instance fed while twelve other threads keep large-window instances busy (eight of the same kind); plus {rounds} free-running 16-thread rounds (SAMPLING, not part of the exhaustive claim)",
        merges(&vec![cont_len; 3]).len()
    );
    let mut assumptions = vec![
        "operation-level atomicity is the complete schedule space as long as instances share no memory: re-checked by a syntactic audit of /repo/src for unsafe/static/thread_local/interior mutability/Rc/Arc/sync/time/randomness (hits listed in coverage.ownership_audit_hits)".to_string(),
        "merges x worker assignments are enumerated as their full product only for the shortest histories; for longer ones as the union of three slices (all merges on one thread; all assignments for canonical merges; all continuation pairs for sequential schedules)".to_string(),
    ];
    if !audit.is_empty() {
        assumptions.push(format!("AUDIT TRIPPED ({} hits): intra-call preemption on shared memory is NOT covered by the controlled scheduler; only the sampled free-running stage exercises it", audit.len()));
    }
    res.assumptions = assumptions;
    res
}
