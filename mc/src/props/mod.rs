pub mod refcmp;
pub mod c01;
