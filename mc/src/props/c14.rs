//! C14 - outputs are covariant with the price unit: rescaling / shifting act as in the math.

use crate::alpha::*;
use crate::engine::*;
use crate::refm::reference;
use crate::report::CheckResult;
use crate::subjects::{make, Cfg, Kind, ALL_KINDS};
use crate::types::*;
use serde_json::json;

pub const PROP: &str = "C14";

fn price_valued(kind: Kind) -> bool {
    matches!(kind, Kind::Sma | Kind::Ema | Kind::Wma | Kind::Min | Kind::Max | Kind::Sd | Kind::Mad | Kind::Tr | Kind::Atr | Kind::Macd | Kind::Bb | Kind::Kc | Kind::Ce)
}

/// natural scale of a dimensionless output
fn dimless_scale(kind: Kind) -> f64 {
    match kind {
        Kind::Er => 1.0,
        Kind::Cci => 1.0 / 0.015,
        _ => 100.0,
    }
}

fn scale_op(op: &Op, c: f64) -> Op {
    match op {
        Op::S(x) => Op::S(x * c),
        Op::B(b) => Op::B(Bar { o: b.o * c, h: b.h * c, l: b.l * c, c: b.c * c, v: b.v }),
        Op::Reset => Op::Reset,
    }
}

fn shift_op(op: &Op, d: f64) -> Op {
    match op {
        Op::S(x) => Op::S(x + d),
        Op::B(b) => Op::B(Bar { o: b.o + d, h: b.h + d, l: b.l + d, c: b.c + d, v: b.v }),
        Op::Reset => Op::Reset,
    }
}

thread_local! {
    /// when set, every run on this thread copies the instance with clone_from into a used instance of the
    /// same parameters right after the first input that follows a reset() (source still warming up)
    static CLONE_FROM_AFTER_RESET: std::cell::Cell<bool> = const { std::cell::Cell::new(false) };
}

fn run_ops(cfg: &Cfg, ops: &[Op]) -> Option<Vec<Out>> {
    let via = CLONE_FROM_AFTER_RESET.with(|c| c.get());
    std::panic::catch_unwind(std::panic::AssertUnwindSafe(|| {
        let mut s = make(cfg);
        let mut outs = Vec::with_capacity(ops.len());
        for (i, o) in ops.iter().enumerate() {
            outs.push(s.apply(o));
            if via && i > 0 && matches!(ops[i - 1], Op::Reset) && !matches!(o, Op::Reset) {
                s = apply_via(cfg, s, Via::CloneFromUsed);
            }
        }
        outs
    }))
    .ok()
}

fn is_pow2(c: f64) -> bool {
    c > 0.0 && c.log2().fract() == 0.0
}

/// Compare base outputs with outputs of the stream scaled by c.
fn check_scale(cfg: &Cfg, ops: &[Op], base: &[Out], c: f64, out: &mut JobOut) -> bool {
    let sops: Vec<Op> = ops.iter().map(|o| scale_op(o, c)).collect();
    let sc = match run_ops(cfg, &sops) {
        Some(s) => s,
        None => {
            out.fail(Violation::new(PROP, cfg, &sops, "panic").obs("panic".into()).exp("outputs".into()));
            return false;
        }
    };
    out.stats.transitions += ops.len() as u64;
    let pow2 = is_pow2(c);
    let rel = if pow2 { 1e-12 } else { 1e-9 };
    let mut m = 0.0f64;
    for i in 0..ops.len() {
        if matches!(ops[i], Op::Reset) {
            continue;
        }
        m = m.max(ops[i].maxmag());
        let (a, b) = (&base[i], &sc[i]);
        let mut bad: Option<String> = None;
        if price_valued(cfg.kind) {
            let unit = c * m;
            match cfg.kind {
                Kind::Sd => {
                    let (va, vb) = (a.v[0] * a.v[0] * c * c, b.v[0] * b.v[0]);
                    if !((va - vb).abs() <= rel * unit * unit) || b.v[0] < 0.0 {
                        bad = Some(format!("variance {:e} vs c^2*variance {:e}", vb, va));
                    }
                }
                Kind::Bb => {
                    let k2 = cfg.mult * cfg.mult;
                    if !((b.v[0] - c * a.v[0]).abs() <= rel * unit) {
                        bad = Some("average does not scale".into());
                    }
                    for j in [1usize, 2] {
                        let (ha, hb) = ((a.v[j] - a.v[0]) * c, b.v[j] - b.v[0]);
                        if !((ha * ha - hb * hb).abs() <= rel * unit * unit * k2.max(1.0)) || ha * hb < 0.0 {
                            bad = Some(format!("band half-width {:e} vs c*{:e}", hb, ha / c));
                        }
                    }
                }
                _ => {
                    let s = if cfg.kind.has_mult() { cfg.mult.abs().max(1.0) } else { 1.0 };
                    for j in 0..a.n as usize {
                        if !((b.v[j] - c * a.v[j]).abs() <= rel * unit * s) {
                            bad = Some(format!("component {}: {:e} vs c*{:e}", j, b.v[j], a.v[j]));
                        }
                    }
                }
            }
        } else {
            // dimensionless: unchanged (times the condition number for non-power-of-two factors)
            let mut tol = rel * dimless_scale(cfg.kind);
            if cfg.kind == Kind::Obv {
                tol = 0.0;
            }
            if !pow2 && cfg.kind != Kind::Obv {
                let r = reference(cfg, since_reset(&ops[..=i]));
                if r.den_zero || (cfg.kind == Kind::Cci && r.neutral) || !(r.cond <= 1e6) {
                    out.stats.skipped += 1;
                    continue;
                }
                tol *= r.cond.max(1.0);
            }
            for j in 0..a.n as usize {
                let ok = (a.v[j] == b.v[j]) || (a.v[j].is_nan() && b.v[j].is_nan()) || (b.v[j] - a.v[j]).abs() <= tol * if cfg.kind == Kind::Ppo && j == 2 { 2.0 } else { 1.0 };
                if !ok {
                    bad = Some(format!("dimensionless component {} changed: {:e} vs {:e}", j, b.v[j], a.v[j]));
                }
            }
        }
        out.stats.evaluations += 1;
        if i + 1 > cfg.max_period() {
            out.stats.nontrivial += 1;
        }
        if let Some(why) = bad {
            out.fail(
                Violation::new(PROP, cfg, &ops[..=i], "not-scale-covariant")
                    .obs(out2s(b))
                    .exp(format!("{} of {}", if price_valued(cfg.kind) { format!("{} times the output", c) } else { "the same output".into() }, out2s(a)))
                    .det(format!("prices multiplied by c={} ({}): {}", c, if pow2 { "power of two, 1e-12" } else { "1e-9" }, why))
                    .with("transform", format!("scale {}", c)),
            );
            return false;
        }
    }
    true
}

fn shift_class(kind: Kind) -> Option<bool> {
    // Some(true): shifts by d; Some(false): unchanged; None: no claim
    match kind {
        Kind::Sma | Kind::Ema | Kind::Wma | Kind::Min | Kind::Max | Kind::Bb | Kind::Kc | Kind::Ce => Some(true),
        Kind::Sd | Kind::Mad | Kind::Tr | Kind::Atr | Kind::Macd | Kind::FastStoch => Some(false),
        _ => None,
    }
}

fn check_shift(cfg: &Cfg, ops: &[Op], base: &[Out], d: f64, out: &mut JobOut) -> bool {
    let shifts = match shift_class(cfg.kind) {
        Some(s) => s,
        None => return true,
    };
    let sops: Vec<Op> = ops.iter().map(|o| shift_op(o, d)).collect();
    let sh = match run_ops(cfg, &sops) {
        Some(s) => s,
        None => {
            out.fail(Violation::new(PROP, cfg, &sops, "panic").obs("panic".into()).exp("outputs".into()));
            return false;
        }
    };
    out.stats.transitions += ops.len() as u64;
    let mut m = 0.0f64;
    for i in 0..ops.len() {
        if matches!(ops[i], Op::Reset) {
            continue;
        }
        m = m.max(ops[i].maxmag());
        let unit = m + d.abs();
        let (a, b) = (&base[i], &sh[i]);
        let mut bad: Option<String> = None;
        match cfg.kind {
            Kind::Sd => {
                if !((a.v[0] * a.v[0] - b.v[0] * b.v[0]).abs() <= 1e-9 * unit * unit) {
                    bad = Some("variance changed".into());
                }
            }
            Kind::Bb => {
                if !((b.v[0] - (a.v[0] + d)).abs() <= 1e-9 * unit) {
                    bad = Some("average does not shift".into());
                }
                for j in [1usize, 2] {
                    let (ha, hb) = (a.v[j] - a.v[0], b.v[j] - b.v[0]);
                    if !((ha * ha - hb * hb).abs() <= 1e-9 * unit * unit * (cfg.mult * cfg.mult).max(1.0)) {
                        bad = Some("band half-width changed".into());
                    }
                }
            }
            Kind::FastStoch => {
                let r = reference(cfg, since_reset(&ops[..=i]));
                if r.neutral {
                    if a.v[0] != b.v[0] {
                        bad = Some("neutral value changed".into());
                    }
                } else {
                    let cond = r.cond * unit / m.max(1e-300);
                    if !(cond <= 1e6) {
                        out.stats.skipped += 1;
                        continue;
                    }
                    if !((a.v[0] - b.v[0]).abs() <= 1e-9 * cond * 100.0) {
                        bad = Some("changed".into());
                    }
                }
            }
            _ => {
                let s = if cfg.kind.has_mult() { cfg.mult.abs().max(1.0) } else { 1.0 };
                for j in 0..a.n as usize {
                    let want = if shifts && !(cfg.kind == Kind::Macd) { a.v[j] + d } else { a.v[j] };
                    if !((b.v[j] - want).abs() <= 1e-9 * unit * s) {
                        bad = Some(format!("component {}: {:e} vs {:e}", j, b.v[j], want));
                    }
                }
            }
        }
        out.stats.evaluations += 1;
        if let Some(why) = bad {
            out.fail(
                Violation::new(PROP, cfg, &ops[..=i], "not-shift-covariant")
                    .obs(out2s(b))
                    .exp(format!("{} {}", if shifts { format!("shifted by {}", d) } else { "unchanged".into() }, out2s(a)))
                    .det(format!("every price shifted by d={}: {}", d, why))
                    .with("transform", format!("shift {}", d)),
            );
            return false;
        }
    }
    true
}

pub fn run(ctx: &Ctx) -> CheckResult {
    let mut res = CheckResult::new(PROP, "model_checking");
    let th = ctx.tier_thorough;
    let (ds, dbar) = if th { (7, 5) } else { (6, 4) };
    let ks: Vec<i32> = if th { (-40..=40).filter(|k| *k != 0).collect() } else { vec![-40, -3, -1, 1, 3, 40] };
    let mut factors: Vec<f64> = ks.iter().map(|k| 2f64.powi(*k)).collect();
    factors.extend([3.0, 0.1, 7.3, 1e-3]);
    let shifts = [0.5, 1.0, 100.0];
    // prices around 1e301 scaled to 2e307: "100 * (x - low)" style reorderings overflow only there
    let factors_huge: Vec<f64> = vec![2f64.powi(21), 2f64.powi(20), 2f64.powi(-30)];
    let huge_alpha = s_ops(&[1e300, 2e300, 9.9e300, 4e300]);
    let mut jobs: Vec<(Cfg, Vec<Op>, usize, bool)> = vec![];
    for k in ALL_KINDS {
        if k == Kind::Rsi {
            continue;
        }
        for cfg in generic_cfgs(k, &[1, 2, 3, 5], &[1, 2, 5]) {
            if k.has_scalar() {
                jobs.push((cfg, s_ops(&S_POS), ds, false));
                // the instance re-used through reset() in mid-stream
                jobs.push((cfg, with_reset(s_ops(&S_POS[..3])), ds, false));
                if !matches!(k, Kind::Sma | Kind::Wma | Kind::Sd | Kind::Mad | Kind::Bb | Kind::Kc | Kind::Cci) {
                    jobs.push((cfg, huge_alpha.clone(), ds - 1, true));
                }
                // with one value 10^6 times larger: residue of a spike that already left the window
                // must not make a dimensionless output depend on the price unit
                let mut spike = S_POS.to_vec();
                spike.push(1e6);
                jobs.push((cfg, s_ops(&spike), ds - 1, false));
            }
            if k.bar_native() {
                let alpha = if matches!(k, Kind::Mfi | Kind::Obv) { b_ops(&b_vol()[..12]) } else { b_ops(&b_grid()) };
                jobs.push((cfg, alpha, dbar, false));
            }
        }
    }
    let outs = par_run(ctx, &jobs, |_, (cfg, alpha, depth, huge)| {
        let mut out = JobOut::default();
        let mut ops: Vec<Op> = vec![];
        let mut n = 0u64;
        for_each_seq_exact(alpha.len(), *depth, |seq| {
            n += 1;
            if n % 256 == 0 && ctx.out_of_time() {
                out.stats.capped.push(format!("time cap in {}", cfg.descr()));
                return false;
            }
            ops.clear();
            ops.extend(seq.iter().map(|&a| alpha[a as usize]));
            out.stats.states += 1;
            out.stats.traces += 1;
            out.stats.transitions += ops.len() as u64;
            let base = match run_ops(cfg, &ops) {
                Some(b) => b,
                None => {
                    out.fail(Violation::new(PROP, cfg, &ops, "panic").obs("panic".into()).exp("outputs".into()));
                    return false;
                }
            };
            for &c in if *huge { &factors_huge } else { &factors } {
                if !check_scale(cfg, &ops, &base, c, &mut out) {
                    return false;
                }
            }
            if *huge {
                return true;
            }
            for &d in &shifts {
                if !check_shift(cfg, &ops, &base, d, &mut out) {
                    return false;
                }
            }
            // streams with reset(): once more with the instance copied by clone_from into a used one right
            // after the first post-reset input, in the plain and in the transformed run alike
            if ops.iter().any(|o| matches!(o, Op::Reset)) {
                CLONE_FROM_AFTER_RESET.with(|c| c.set(true));
                let ok = match run_ops(cfg, &ops) {
                    Some(b2) => check_scale(cfg, &ops, &b2, 3.0, &mut out) && check_shift(cfg, &ops, &b2, 100.0, &mut out),
                    None => {
                        out.fail(Violation::new(PROP, cfg, &ops, "panic").obs("panic".into()).exp("outputs".into()));
                        false
                    }
                };
                CLONE_FROM_AFTER_RESET.with(|c| c.set(false));
                if !ok {
                    if let Some(v) = out.violations.last_mut() {
                        v.detail.push_str(" [in both runs the instance was copied with clone_from into a used instance of the same parameters right after the first input following each reset()]");
                    }
                    return false;
                }
            }
            true
        });
        out.stats.sample(|| format!("{}: all {}^{} streams x {} scale factors x {} shifts", cfg.descr(), alpha.len(), depth, factors.len(), shifts.len()));
        out
    });
    res.absorb(merge_jobs(outs));
    // bars of EQUAL typical price but different shape (a move / no-move decision between them must not depend
    // on the price unit).  Only factors that scale this dyadic alphabet exactly (3, 6, 1/8, 3*2^40): with an
    // inexact factor the rounded scaled inputs no longer have equal typical prices in real arithmetic, and
    // reporting the move is then the correct answer for that input.
    if !res.out.failed() {
        let mut tie = b_mfi();
        tie.push(Bar::hlcv(4.0, 1.0, 1.0, 3.0));
        tie.push(Bar::hlcv(2.5, 1.5, 2.0, 1.0));
        let alpha = b_ops(&tie);
        let exact = [3.0, 6.0, 0.125, 3.0 * 2f64.powi(40)];
        let mut jobs2: Vec<Cfg> = vec![];
        for n in [1usize, 2, 3, 5] {
            jobs2.push(Cfg::p1(Kind::Mfi, n));
            jobs2.push(Cfg::p1(Kind::Cci, n));
            jobs2.push(Cfg::pm(Kind::Kc, n, 2.0));
        }
        let depth = if th { 6 } else { 5 };
        let outs = par_run(ctx, &jobs2, |_, cfg| {
            let mut out = JobOut::default();
            let mut ops: Vec<Op> = vec![];
            for_each_seq_exact(alpha.len(), depth, |seq| {
                ops.clear();
                ops.extend(seq.iter().map(|&a| alpha[a as usize]));
                out.stats.states += 1;
                out.stats.traces += 1;
                out.stats.transitions += ops.len() as u64;
                let base = match run_ops(cfg, &ops) {
                    Some(b) => b,
                    None => {
                        out.fail(Violation::new(PROP, cfg, &ops, "panic").obs("panic".into()).exp("outputs".into()));
                        return false;
                    }
                };
                for &c in &exact {
                    if !check_scale(cfg, &ops, &base, c, &mut out) {
                        return false;
                    }
                }
                true
            });
            out.stats.sample(|| format!("{}: all {}^{} streams over bars with tied typical prices x {} exact scale factors", cfg.descr(), alpha.len(), depth, exact.len()));
            out
        });
        res.absorb(merge_jobs(outs));
    }

    // one large window (6001): a normaliser or counter kept in a narrower type is exact for small periods
    if !res.out.failed() {
        let n = 6001usize;
        let len = 2 * n + 5;
        let mut big: Vec<Cfg> = vec![];
        for k in ALL_KINDS {
            if k == Kind::Rsi || k.nperiods() != 1 {
                continue;
            }
            if matches!(k, Kind::Mad | Kind::Cci | Kind::Er) && !th {
                continue; // O(window) per step
            }
            big.push(if k.has_mult() { Cfg::pm(k, n, 2.0) } else { Cfg::p1(k, n) });
        }
        let outs = par_run(ctx, &big, |_, cfg| {
            let mut out = JobOut::default();
            let ops: Vec<Op> = (0..len)
                .map(|i| {
                    let x = 50.0 + ((i * 37) % 101) as f64 * 0.37 + (i % 7) as f64 * 0.013;
                    if cfg.kind.has_scalar() {
                        Op::S(x)
                    } else {
                        Op::B(Bar { o: x, h: x * 1.01, l: x * 0.99, c: x * (0.995 + 0.005 * (i % 3) as f64), v: 1.0 + (i % 4) as f64 })
                    }
                })
                .collect();
            out.stats.states += 1;
            out.stats.traces += 1;
            out.stats.transitions += ops.len() as u64;
            match run_ops(cfg, &ops) {
                Some(base) => {
                    for c in [3.0, 0.125] {
                        if !check_scale(cfg, &ops, &base, c, &mut out) {
                            return out;
                        }
                    }
                    if !cfg.kind.bar_native() || cfg.kind.has_scalar() {
                        check_shift(cfg, &ops, &base, 1000.0, &mut out);
                    }
                }
                None => out.fail(Violation::new(PROP, cfg, &[], "panic").obs("panic".into()).exp("outputs".into())),
            }
            out
        });
        res.absorb(merge_jobs(outs));
    }

    // Maximum(x) == -Minimum(-x) exactly
    if !res.out.failed() {
        let d = if th { 9 } else { 8 };
        let periods = [1usize, 2, 3, 4, 5];
        let outs = par_run(ctx, &periods, |_, &n| {
            let mut out = JobOut::default();
            let cmax = Cfg::p1(Kind::Max, n);
            let cmin = Cfg::p1(Kind::Min, n);
            let mut xs: Vec<f64> = vec![];
            // one extra symbol (NaN in `xs`) stands for reset() on both instances
            for_each_seq_exact(S_INT.len() + 1, d, |seq| {
                xs.clear();
                xs.extend(seq.iter().map(|&a| if (a as usize) < S_INT.len() { S_INT[a as usize] } else { f64::NAN }));
                let mut a = make(&cmax);
                let mut b = make(&cmin);
                out.stats.states += 1;
                out.stats.traces += 1;
                out.stats.transitions += 2 * d as u64;
                for (i, x) in xs.iter().enumerate() {
                    if x.is_nan() {
                        // Maximum passes through an identity transformation (serde round trip, clone,
                        // clone_from, ...) right before the reset; Minimum is reset as it is
                        a = apply_via(&cmax, a, VIAS[i % VIAS.len()]);
                        a.reset();
                        b.reset();
                        continue;
                    }
                    let oa = a.next_s(*x).v[0];
                    let ob = -b.next_s(-*x).v[0];
                    out.stats.evaluations += 1;
                    if !(oa == ob) {
                        let ops: Vec<Op> = xs[..=i].iter().map(|x| if x.is_nan() { Op::Reset } else { Op::S(*x) }).collect();
                        out.fail(Violation::new(PROP, &cmax, &ops, "max-is-not-neg-min-neg").obs(f2s(oa)).exp(f2s(ob)).det("Maximum(x) must equal -Minimum(-x) exactly".into()));
                        return false;
                    }
                }
                true
            });
            out
        });
        res.absorb(merge_jobs(outs));
    }
    // the same identities for medium periods on tick-grid walks (ties, double tops, a new extreme exactly
    // when a tied one leaves the window)
    if !res.out.failed() {
        let periods: Vec<usize> = (6..=40).collect();
        let len = if th { 20_000 } else { 3_000 };
        let outs = par_run(ctx, &periods, |_, &n| {
            let mut out = JobOut::default();
            let cmax = Cfg::p1(Kind::Max, n);
            let cmin = Cfg::p1(Kind::Min, n);
            for seed in [ctx.seed, ctx.seed.wrapping_add(5)] {
                let walk = super::refcmp::tick_walk(len, seed, false, false, true);
                let (mut a, mut b, mut c4) = (make(&cmax), make(&cmin), make(&cmax));
                out.stats.traces += 1;
                out.stats.states += 1;
                out.stats.transitions += 3 * len as u64;
                for (i, op) in walk.iter().enumerate() {
                    match op {
                        Op::S(x) => {
                            let oa = a.next_s(*x).v[0];
                            let ob = -b.next_s(-*x).v[0];
                            let oc = c4.next_s(4.0 * *x).v[0];
                            out.stats.evaluations += 2;
                            out.stats.nontrivial += 2;
                            if !(oa == ob) || !(oc == 4.0 * oa) {
                                let bad_scale = oa == ob;
                                out.fail(
                                    Violation::new(PROP, &cmax, &walk[..=i], if bad_scale { "not-scale-covariant" } else { "max-is-not-neg-min-neg" })
                                        .obs(f2s(if bad_scale { oc } else { oa }))
                                        .exp(f2s(if bad_scale { 4.0 * oa } else { ob }))
                                        .det(if bad_scale { "Maximum(4x) must equal 4*Maximum(x) exactly (power of two)".into() } else { "Maximum(x) must equal -Minimum(-x) exactly".into() }),
                                );
                                return out;
                            }
                        }
                        Op::Reset => {
                            a.reset();
                            b.reset();
                            c4.reset();
                        }
                        _ => {}
                    }
                }
            }
            out
        });
        res.absorb(merge_jobs(outs));
    }
    res.extra.insert("scale_factors".into(), json!(factors.len()));
    res.rule = "case = (configuration, stream, transform): two real instances fed x and c*x (or x+d) step by step; price-valued outputs must scale by c (shift by d), dimensionless ones stay unchanged, within 1e-12 relative to c*M for powers of two and 1e-9 (times the condition number, gated at 1e6) otherwise; SD and Bollinger half-widths compared as variances; non-trivial = step beyond the window".into();
    res.bounds = format!("all indicators except RSI, periods {{1,2,3,5}}: all 4^{ds} positive scalar streams, all 4^{ds} streams over 3 values + reset, all streams over {{1e300,2e300,9.9e300,4e300}} with factors 2^21, 2^20, 2^-30 (indicators without running sums) (and all 5^(depth-1) streams with a 1e6 spike symbol) / all bar streams of length {dbar} over the grid; scale factors 2^k for k in {} plus 3, 0.1, 7.3, 1e-3; shifts 0.5, 1, 100; MFI/CCI/KC on all 7^5 / 7^6 streams over bars with tied typical prices and different shapes, factors 3, 6, 1/8, 3*2^40 (exact on that alphabet); period 6001 on a 12007-step stream (factors 3 and 1/8, shift 1000); Maximum(x) = -Minimum(-x) on all 6^{} mixed-sign streams with reset(), and (with Maximum(4x) = 4 Maximum(x)) on tick-grid walks of 3000 / 20000 steps for periods 6..40", if th { "-40..=40".to_string() } else { format!("{:?}", ks) }, if th { 9 } else { 8 });
    res
}
