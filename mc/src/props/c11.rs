//! C11 - constructors reject exactly period 0; accessors, Display, Default are faithful.

use crate::alpha::*;
use crate::engine::*;
use crate::report::CheckResult;
use crate::subjects::{make, make_default, try_make, Cfg, Kind, Subject, ALL_KINDS};
use crate::types::*;
use serde_json::json;
use ta::errors::TaError;

pub const PROP: &str = "C11";

fn check_accessors(cfg: &Cfg, s: &dyn Subject) -> Result<(), (String, String, String)> {
    let want = cfg.display_text();
    let got = s.disp();
    if got != want {
        return Err(("display-mismatch".into(), got, want));
    }
    // printed through a format spec (a table column, an explicit sign): the parameters must not pick up
    // the caller's width / sign flags; padding around the WHOLE text (Formatter::pad) is accepted
    for (spec, name) in [(0u8, "{:>24}"), (1, "{:<24}"), (2, "{:+}")] {
        let g = s.disp_spec(spec);
        if g.trim() != want {
            return Err((format!("display-mismatch-with-{}", name), g, want));
        }
    }
    if cfg.kind.has_period_trait() {
        let p = s.period();
        if p != Some(cfg.p[0]) {
            return Err(("period-mismatch".into(), format!("{:?}", p), format!("{}", cfg.p[0])));
        }
    }
    if cfg.kind.has_mult() {
        let m = s.multiplier();
        if m.map(|x| x.to_bits()) != Some(cfg.mult.to_bits()) {
            return Err(("multiplier-mismatch".into(), format!("{:?}", m), f2s(cfg.mult)));
        }
    }
    Ok(())
}

/// One constructor call under catch_unwind, judged against "Err iff some period is 0".
fn check_new(cfg: &Cfg, out: &mut JobOut) {
    out.stats.states += 1;
    out.stats.transitions += 1;
    out.stats.evaluations += 1;
    let any_zero = cfg.periods().iter().any(|p| *p == 0);
    if !any_zero && cfg.periods().iter().any(|p| *p > 1) {
        out.stats.nontrivial += 1;
    }
    let r = std::panic::catch_unwind(|| try_make(cfg));
    match r {
        Err(_) => out.fail(
            Violation::new(PROP, cfg, &[], "constructor-panic")
                .obs("panic".into())
                .exp(if any_zero { "Err(InvalidParameter)".into() } else { "Ok(indicator)".into() })
                .det(format!("{} panicked (overflow checks and debug assertions enabled)", cfg.rust_new())),
        ),
        Ok(Err(e)) => {
            if !any_zero || e != TaError::InvalidParameter {
                out.fail(Violation::new(PROP, cfg, &[], "constructor-rejects-valid").obs(format!("Err({:?})", e)).exp(if any_zero { "Err(InvalidParameter)".into() } else { "Ok(indicator)".into() }).det(cfg.rust_new()));
            }
        }
        Ok(Ok(s)) => {
            if any_zero {
                out.fail(Violation::new(PROP, cfg, &[], "constructor-accepts-zero").obs("Ok(indicator)".into()).exp("Err(InvalidParameter)".into()).det(cfg.rust_new()));
                return;
            }
            if let Err((class, got, want)) = check_accessors(cfg, s.as_ref()) {
                out.fail(Violation::new(PROP, cfg, &[], &class).obs(got).exp(want).det("right after construction".into()));
            }
        }
    }
}

fn lifetime_job(ctx: &Ctx, cfg: &Cfg, depth: usize) -> JobOut {
    let mut out = JobOut::default();
    let alpha = with_reset(generic_alphabet(cfg.kind, true));
    let mut ops: Vec<Op> = vec![];
    let mut n = 0u64;
    for_each_seq_exact(alpha.len(), depth, |seq| {
        n += 1;
        if n % 1024 == 0 && ctx.out_of_time() {
            out.stats.capped.push(format!("time cap in {}", cfg.descr()));
            return false;
        }
        ops.clear();
        ops.extend(seq.iter().map(|&a| alpha[a as usize]));
        out.stats.traces += 1;
        let r = std::panic::catch_unwind(std::panic::AssertUnwindSafe(|| {
            let mut s = make(cfg);
            for (i, op) in ops.iter().enumerate() {
                s.apply(op);
                if let Err(e) = check_accessors(cfg, s.as_ref()) {
                    return Some((i, e));
                }
                // the indicator's whole life includes its copies: a clone and a serde-restored copy
                if let Err((c, g, w)) = check_accessors(cfg, s.dup().as_ref()) {
                    return Some((i, (format!("{}-after-clone", c), g, w)));
                }
                if let Ok(bytes) = s.ser() {
                    if let Ok(r) = s.de(&bytes) {
                        if let Err((c, g, w)) = check_accessors(cfg, r.as_ref()) {
                            return Some((i, (format!("{}-after-serde-roundtrip", c), g, w)));
                        }
                    }
                }
                // ... and instances it was copied into with clone_from (one with the same periods but
                // another multiplier and history, one with larger periods)
                for via in [Via::CloneFromUsed, Via::CloneFromBigger] {
                    let t = apply_via(cfg, s.dup(), via);
                    if let Err((c, g, w)) = check_accessors(cfg, t.as_ref()) {
                        return Some((i, (format!("{}-after-{}", c, via.tag()), g, w)));
                    }
                }
                if cfg.kind.has_mult() {
                    let mut t = make(&Cfg { mult: cfg.mult + 1.5, ..*cfg });
                    t.apply(&alpha[0]);
                    t.assign_from(s.as_ref());
                    if let Err((c, g, w)) = check_accessors(cfg, t.as_ref()) {
                        return Some((i, (format!("{}-after-clone_from(same periods, other multiplier)", c), g, w)));
                    }
                }
            }
            None
        }));
        out.stats.states += depth as u64;
        out.stats.transitions += depth as u64;
        out.stats.evaluations += depth as u64;
        out.stats.nontrivial += depth as u64;
        match r {
            Ok(None) => true,
            Ok(Some((i, (class, got, want)))) => {
                out.fail(Violation::new(PROP, cfg, &ops[..=i], &class).obs(got).exp(want).det(format!("after {} operations", i + 1)));
                false
            }
            Err(_) => {
                out.fail(Violation::new(PROP, cfg, &ops, "panic").obs("panic".into()).exp("accessors".into()));
                false
            }
        }
    });
    out
}

fn default_job(kind: Kind, depth: usize) -> JobOut {
    let mut out = JobOut::default();
    let cfg = kind.default_cfg();
    let d = match std::panic::catch_unwind(|| make_default(kind)) {
        Ok(d) => d,
        Err(_) => {
            out.fail(Violation::new(PROP, &cfg, &[], "constructor-panic").obs("Default::default() panicked".into()).exp(cfg.rust_new()));
            return out;
        }
    };
    out.stats.evaluations += 1;
    if let Err((class, got, want)) = check_accessors(&cfg, d.as_ref()) {
        out.fail(Violation::new(PROP, &cfg, &[], &format!("default-{}", class)).obs(got).exp(want).det(format!("{}::default() must behave as {}", kind.rust_type(), cfg.rust_new())));
        return out;
    }
    let mut alpha = generic_alphabet(kind, false);
    // negative and zero values too: a default built with a wrong sentinel / filler shows only there
    if kind.has_scalar() {
        alpha.extend([Op::S(-5.0), Op::S(0.0)]);
    } else {
        alpha.push(Op::B(Bar { o: -3.0, h: -1.0, l: -6.0, c: -2.0, v: 2.0 }));
    }
    let mut ops: Vec<Op> = vec![];
    let mut pattern_no = 0usize;
    for_each_seq_exact(alpha.len(), depth, |seq| {
        ops.clear();
        ops.extend(seq.iter().map(|&a| alpha[a as usize]));
        pattern_no += 1;
        // every other pattern the default instance goes through reset / clone / Debug / Display first
        let lifecycle_first = pattern_no % 2 == 0;
        // long enough to pass the default window: repeat the pattern
        let n = cfg.max_period() + 3;
        let long: Vec<Op> = (0..n.max(depth)).map(|i| ops[i % depth]).collect();
        let r = std::panic::catch_unwind(std::panic::AssertUnwindSafe(|| {
            let mut a = make_default(kind);
            let mut b = make(&cfg);
            if lifecycle_first {
                a.reset();
                a = a.dup();
                let _ = a.dbg();
                let _ = a.disp();
                a.reset();
            }
            for (i, op) in long.iter().enumerate() {
                let oa = a.apply(op);
                let ob = b.apply(op);
                if !oa.bits_eq(&ob) {
                    return Some((i, oa, ob));
                }
            }
            None
        }));
        out.stats.traces += 1;
        out.stats.states += long.len() as u64;
        out.stats.transitions += 2 * long.len() as u64;
        out.stats.evaluations += long.len() as u64;
        out.stats.nontrivial += long.len() as u64;
        match r {
            Ok(None) => true,
            Ok(Some((i, oa, ob))) => {
                out.fail(Violation::new(PROP, &cfg, &long[..=i], "default-differs-from-new").obs(out2s(&oa)).exp(out2s(&ob)).det(format!("{}::default() output {} differs from {}", kind.rust_type(), i + 1, cfg.rust_new())));
                false
            }
            Err(_) => {
                out.fail(Violation::new(PROP, &cfg, &long, "panic").obs("panic".into()).exp("outputs".into()));
                false
            }
        }
    });
    out
}

pub fn run(ctx: &Ctx) -> CheckResult {
    let mut res = CheckResult::new(PROP, "model_checking");
    let th = ctx.tier_thorough;
    let pmax = 4096usize;
    let tmax = 24usize;
    let mults = [2.0, 0.0, -1.0, f64::NAN, 1e300, 2.71828, 1e-5, 1e305, -0.0, f64::INFINITY, 0.9999999999999999, 2.0000000000000004, 1e-10, -2.9999999999999996, f64::NEG_INFINITY];
    let big: Vec<usize> = vec![1usize << 31, 1usize << 32, (1usize << 53) + 1, usize::MAX - 1, usize::MAX];
    let large_windows: Vec<usize> = vec![65_536, 1 << 20, 1 << 24, (1 << 24) + 1, 1 << 25];
    // constructor jobs, grouped per kind
    let outs = par_run(ctx, &ALL_KINDS, |_, &k| {
        let mut out = JobOut::default();
        match k.nperiods() {
            0 => check_new(&Cfg::p0(k), &mut out),
            1 => {
                for p in 0..=pmax {
                    if k.has_mult() {
                        for (i, &m) in mults.iter().enumerate() {
                            if i == 0 || p <= 64 || p % 97 == 0 {
                                check_new(&Cfg::pm(k, p, m), &mut out);
                            }
                        }
                    } else {
                        check_new(&Cfg::p1(k, p), &mut out);
                    }
                    if out.failed() {
                        return out;
                    }
                }
                if !k.allocates() {
                    for &p in &big {
                        check_new(&if k.has_mult() { Cfg::pm(k, p, 2.0) } else { Cfg::p1(k, p) }, &mut out);
                    }
                } else {
                    // "as far as memory allows": windows of up to 2^25 values (256 MiB) are well within it
                    for &p in &large_windows {
                        check_new(&if k.has_mult() { Cfg::pm(k, p, 2.0) } else { Cfg::p1(k, p) }, &mut out);
                    }
                }
            }
            2 => {
                for a in 0..=tmax {
                    for b in 0..=tmax {
                        check_new(&Cfg::p2(k, a, b), &mut out);
                    }
                }
                for p in 0..=pmax {
                    check_new(&Cfg::p2(k, p, 1 + p % 7), &mut out);
                    check_new(&Cfg::p2(k, 1 + p % 7, p), &mut out);
                }
                // SlowStochastic: the EMA period allocates nothing
                for &p in &big {
                    check_new(&Cfg::p2(k, 14, p), &mut out);
                }
                for &p in &large_windows {
                    check_new(&Cfg::p2(k, p, 3), &mut out);
                }
                // pairs whose product, sum or difference wraps (2^10 * 2^54 = 2^64): the window size in the
                // first position, every power of two and its neighbours in the second
                for &a in &[1usize, 3, 16, 96, 1 << 10, 1 << 16] {
                    for e in 0..64u32 {
                        for b in [(1usize << e).wrapping_sub(1), 1usize << e, (1usize << e).wrapping_add(1)] {
                            check_new(&Cfg::p2(k, a, b), &mut out);
                        }
                    }
                    check_new(&Cfg::p2(k, a, usize::MAX), &mut out);
                }
            }
            _ => {
                for a in 0..=tmax {
                    for b in 0..=tmax {
                        for c in 0..=tmax {
                            check_new(&Cfg::p3(k, a, b, c), &mut out);
                        }
                    }
                }
                for p in 0..=pmax {
                    check_new(&Cfg::p3(k, p, 1 + p % 5, 2), &mut out);
                    check_new(&Cfg::p3(k, 3, p, 1 + p % 3), &mut out);
                    check_new(&Cfg::p3(k, 2, 5, p), &mut out);
                }
                for &p in &big {
                    check_new(&Cfg::p3(k, p, 26, 9), &mut out);
                    check_new(&Cfg::p3(k, 12, p, 9), &mut out);
                    check_new(&Cfg::p3(k, 12, 26, p), &mut out);
                    check_new(&Cfg::p3(k, p, p, p), &mut out);
                }
                // triples whose products / sums wrap (2^21 * 2^43, 2^16 * 2^48, 2^22 * 2^21 * 2^21, ...)
                let wide = [0usize, 1, 3, 1 << 16, 1 << 21, 1 << 22, 1 << 32, 1 << 43, 1 << 48, 1 << 54, 1 << 60, 1 << 63, usize::MAX];
                for &a in &wide {
                    for &b in &wide {
                        for &c in &wide {
                            check_new(&Cfg::p3(k, a, b, c), &mut out);
                        }
                    }
                }
            }
        }
        out.stats.sample(|| format!("{}: every period 0..={} / every tuple over 0..={}{}", k.name(), pmax, tmax, if k.allocates() { "" } else { " + 2^31, 2^32, 2^53+1, usize::MAX-1, usize::MAX" }));
        out
    });
    res.absorb(merge_jobs(outs));

    // accessors for the indicator's whole life
    if !res.out.failed() {
        let depth = if th { 5 } else { 4 };
        let mut cfgs = vec![];
        for k in ALL_KINDS {
            cfgs.extend(generic_cfgs(k, &[1, 3, 10], &[2, 7]));
            if k.has_mult() {
                for m in [0.0, -1.0, f64::NAN, 1e300, 2.71828, 1e-5, f64::INFINITY, f64::NEG_INFINITY, -0.0, 0.9999999999999999] {
                    cfgs.push(Cfg::pm(k, 4, m));
                }
            }
        }
        let outs = par_run(ctx, &cfgs, |_, cfg| lifetime_job(ctx, cfg, depth));
        res.absorb(merge_jobs(outs));
        // Default
        let outs = par_run(ctx, &ALL_KINDS, |_, &k| default_job(k, if th { 5 } else { 4 }));
        res.absorb(merge_jobs(outs));
    }
    res.extra.insert("defaults".into(), json!(ALL_KINDS.iter().map(|k| k.default_cfg().display_text()).collect::<Vec<_>>()));
    res.rule = "case = one constructor call (every period / period tuple / multiplier listed in bounds) under catch_unwind in the overflow-checked build: Err(InvalidParameter) iff some period is 0, else Ok with period()/multiplier()/Display equal to the arguments; plus accessors re-checked after every operation of every history, and Default::default() vs new(documented defaults) output-by-output; non-trivial = constructor with a period > 1 / accessor check after >= 1 operation".into();
    res.bounds = format!("single-period constructors: every period 0..={pmax}; multi-period: every tuple over 0..={tmax} plus every period 0..={pmax} in each position; multipliers {{2,0,-1,NaN,1e300,2.71828,1e-5,1e305,-0.0,+-inf, 1-1ulp, 2+1ulp, 1e-10, -3+1ulp}}; boundary periods 2^31, 2^32, 2^53+1, usize::MAX-1, usize::MAX for allocation-free indicators, SlowStochastic (6 window sizes) x (every 2^e and 2^e+-1, usize::MAX), MACD / PPO over all 13^3 triples of {{0, 1, 3, 2^16, 2^21, 2^22, 2^32, 2^43, 2^48, 2^54, 2^60, 2^63, usize::MAX}} and 2^16, 2^20, 2^24, 2^24+1, 2^25 for windowed ones; accessors (also on a clone, on a bincode-restored copy and on instances overwritten with clone_from) after every op of every history in seq(values+special+reset, {}); Default (also reset / cloned / formatted before its first input) vs new(defaults) on all 4^{} input patterns", if th { 5 } else { 4 }, if th { 5 } else { 4 });
    res
}
