//! Lifecycle state graphs (C04, C05, C06): explicit-state breadth-first search
//! over the REAL object with actions = alphabet inputs + reset, run to a
//! fixpoint where the reachable concrete state space is finite (exact
//! alphabets, comparison / running-sum indicators) and to a depth / state cap
//! otherwise.  In EVERY reachable state one "fork" operation is checked:
//!
//!   Reset: reset() must lead to a state behaving like a fresh instance   (C04)
//!   Clone: clone() must lead to a state behaving like the original       (C05)
//!   Serde: deserialize(serialize()) must behave like the original        (C06)
//!
//! "Behaving like" is decided in two steps: if the forked object's concrete
//! state key (bincode + Debug) equals the reference object's key the fork is
//! accepted (identical state => identical futures); otherwise EVERY
//! continuation of max(n+2, 4) inputs is executed on both and compared (1e-12
//! relative / bit-identical for Clone).  Key equality therefore only prunes; a
//! correct fork that is not state-identical is never an alarm.

use crate::engine::*;
use crate::subjects::{make, Cfg, Subject};
use crate::types::*;
use std::collections::HashSet;

#[derive(Clone, Copy, PartialEq, Debug)]
pub enum Fork {
    Reset,
    Clone,
    Serde,
}

pub struct GraphResult {
    pub states: u64,
    pub transitions: u64,
    pub depth: usize,
    pub fixpoint: bool,
    pub forks_state_identical: u64,
    pub forks_compared_behaviourally: u64,
}

fn replay_path(cfg: &Cfg, alphabet: &[Op], path: &[u8]) -> Box<dyn Subject> {
    let mut s = make(cfg);
    for &a in path {
        s.apply(&alphabet[a as usize]);
    }
    s
}

/// Build (reference object, forked object) for the state reached by `path`.
fn fork_pair(cfg: &Cfg, alphabet: &[Op], path: &[u8], fork: Fork) -> Result<(Box<dyn Subject>, Box<dyn Subject>), String> {
    let s = replay_path(cfg, alphabet, path);
    match fork {
        Fork::Reset => {
            let mut r = s;
            r.reset();
            Ok((make(cfg), r))
        }
        Fork::Clone => {
            let c = s.dup();
            Ok((s, c))
        }
        Fork::Serde => {
            let bytes = s.ser().map_err(|e| format!("serialize: {}", e))?;
            let r = s.de(&bytes).map_err(|e| format!("deserialize: {}", e))?;
            Ok((s, r))
        }
    }
}

fn same(a: &Out, b: &Out, fork: Fork) -> bool {
    match fork {
        Fork::Clone => a.bits_eq(b),
        _ => out_rel_eq(a, b, 1e-12),
    }
}

/// Compare reference and forked object on every continuation of length `len`.
fn behavioural(cfg: &Cfg, alphabet: &[Op], path: &[u8], fork: Fork, cont: &[Op], len: usize, prop: &str, out: &mut JobOut) -> bool {
    let mut ok = true;
    for_each_seq_exact(cont.len(), len, |seq| {
        let r = std::panic::catch_unwind(std::panic::AssertUnwindSafe(|| {
            let (mut a, mut b) = match fork_pair(cfg, alphabet, path, fork) {
                Ok(p) => p,
                Err(e) => return Some((0usize, Out::NONE, Out::NONE, e)),
            };
            for (i, &c) in seq.iter().enumerate() {
                let oa = a.apply(&cont[c as usize]);
                let ob = b.apply(&cont[c as usize]);
                if !same(&oa, &ob, fork) {
                    return Some((i, oa, ob, String::new()));
                }
            }
            None
        }));
        out.stats.traces += 1;
        out.stats.transitions += (path.len() + 2 * len) as u64;
        match r {
            Ok(None) => true,
            Ok(Some((i, oa, ob, err))) => {
                let mut ops: Vec<Op> = path.iter().map(|&a| alphabet[a as usize]).collect();
                let at = ops.len();
                if fork == Fork::Reset {
                    ops.push(Op::Reset);
                }
                ops.extend(seq[..=i.min(seq.len() - 1)].iter().map(|&c| cont[c as usize]));
                let class = match fork {
                    Fork::Reset => "reset-differs-from-fresh",
                    Fork::Clone => "clone-diverges",
                    Fork::Serde => {
                        if err.is_empty() {
                            "restored-copy-differs"
                        } else {
                            "deserialize-failed"
                        }
                    }
                };
                out.fail(
                    Violation::new(prop, cfg, &ops, class)
                        .obs(if err.is_empty() { out2s(&ob) } else { err })
                        .exp(out2s(&oa))
                        .det(format!("state graph: {:?} taken in the state reached after {} operations; continuation output {} differs from the reference object", fork, at, i + 1))
                        .with("fork", format!("{:?}@{}", fork, at)),
                );
                ok = false;
                false
            }
            Err(_) => {
                let ops: Vec<Op> = path.iter().map(|&a| alphabet[a as usize]).collect();
                out.fail(Violation::new(prop, cfg, &ops, "panic").obs("panic".into()).exp("outputs".into()).with("fork", format!("{:?}@{}", fork, path.len())));
                ok = false;
                false
            }
        }
    });
    ok
}

/// Explore the lifecycle graph of `cfg` over `alphabet` (which may contain
/// Reset) and check `fork` in every reachable state.
pub fn lifecycle_graph(ctx: &Ctx, prop: &str, cfg: &Cfg, alphabet: &[Op], cont: &[Op], fork: Fork, max_states: usize, max_depth: usize, out: &mut JobOut) -> GraphResult {
    let mut res = GraphResult { states: 0, transitions: 0, depth: 0, fixpoint: false, forks_state_identical: 0, forks_compared_behaviourally: 0 };
    let cont_len = (cfg.max_period() + 2).max(4);
    let mut seen: HashSet<u128> = HashSet::new();
    let root = make(cfg);
    seen.insert(state_key(root.as_ref(), &[]));
    let mut frontier: Vec<Vec<u8>> = vec![vec![]];
    res.states = 1;
    while !frontier.is_empty() {
        // fork invariant in every state of this level
        for path in &frontier {
            let pair = std::panic::catch_unwind(std::panic::AssertUnwindSafe(|| fork_pair(cfg, alphabet, path, fork).map(|(a, b)| (state_key(a.as_ref(), &[]), state_key(b.as_ref(), &[]), a.disp() == b.disp() && a.period() == b.period() && a.multiplier().map(|m| m.to_bits()) == b.multiplier().map(|m| m.to_bits())))));
            out.stats.evaluations += 1;
            if !path.is_empty() {
                out.stats.nontrivial += 1;
            }
            match pair {
                Ok(Ok((ka, kb, params_same))) => {
                    if !params_same {
                        let ops: Vec<Op> = path.iter().map(|&a| alphabet[a as usize]).collect();
                        out.fail(Violation::new(prop, cfg, &ops, "parameters-changed").obs("Display/period()/multiplier() differ after the fork".into()).exp("unchanged parameters".into()).with("fork", format!("{:?}@{}", fork, path.len())));
                        return res;
                    }
                    if ka == kb {
                        res.forks_state_identical += 1;
                    } else {
                        res.forks_compared_behaviourally += 1;
                        if !behavioural(cfg, alphabet, path, fork, cont, cont_len, prop, out) {
                            return res;
                        }
                    }
                }
                Ok(Err(e)) => {
                    let ops: Vec<Op> = path.iter().map(|&a| alphabet[a as usize]).collect();
                    out.fail(Violation::new(prop, cfg, &ops, "deserialize-failed").obs(e).exp("a restored copy".into()).with("fork", format!("{:?}@{}", fork, path.len())));
                    return res;
                }
                Err(_) => {
                    let ops: Vec<Op> = path.iter().map(|&a| alphabet[a as usize]).collect();
                    out.fail(Violation::new(prop, cfg, &ops, "panic").obs("panic".into()).exp("the fork returns".into()).with("fork", format!("{:?}@{}", fork, path.len())));
                    return res;
                }
            }
        }
        if res.depth >= max_depth {
            break;
        }
        // successors
        let mut next: Vec<Vec<u8>> = vec![];
        for path in &frontier {
            for a in 0..alphabet.len() {
                res.transitions += 1;
                let mut p = path.clone();
                p.push(a as u8);
                let k = match std::panic::catch_unwind(std::panic::AssertUnwindSafe(|| state_key(replay_path(cfg, alphabet, &p).as_ref(), &[]))) {
                    Ok(k) => k,
                    Err(_) => {
                        let ops: Vec<Op> = p.iter().map(|&a| alphabet[a as usize]).collect();
                        out.fail(Violation::new(prop, cfg, &ops, "panic").obs("panic".into()).exp("a return value".into()));
                        return res;
                    }
                };
                if seen.insert(k) {
                    res.states += 1;
                    next.push(p);
                }
            }
            if ctx.out_of_time() {
                out.stats.capped.push(format!("time cap in state graph ({} states, depth {}) of {} [{:?}]", seen.len(), res.depth, cfg.descr(), fork));
                out.stats.states += res.states;
                out.stats.transitions += res.transitions;
                return res;
            }
            if seen.len() > max_states {
                // infinite (or very large) graph: the designed state bound, reported per subject (fixpoint = false)
                out.stats.states += res.states;
                out.stats.transitions += res.transitions;
                return res;
            }
        }
        res.depth += 1;
        frontier = next;
    }
    res.fixpoint = frontier.is_empty();
    out.stats.states += res.states;
    out.stats.transitions += res.transitions;
    res
}

/// Exact alphabets (small integers; running sums stay exact, so the concrete
/// state is a function of window content and cursors and the graph is finite
/// for the non-dividing indicators) for the lifecycle graphs.
pub fn exact_alphabet(kind: crate::subjects::Kind) -> Vec<Op> {
    let mut v: Vec<Op> = vec![];
    if !kind.has_scalar() {
        v.extend([
            Op::B(Bar::hlcv(1.0, 1.0, 1.0, 1.0)),
            Op::B(Bar::hlcv(2.0, 1.0, 2.0, 3.0)),
            Op::B(Bar::hlcv(4.0, 2.0, 2.0, 1.0)),
            Op::B(Bar::hlcv(4.0, 1.0, 1.0, 0.0)),
        ]);
    } else if kind.bar_native() {
        v.extend([Op::S(1.0), Op::B(Bar::hlcv(2.0, 1.0, 2.0, 3.0)), Op::S(-2.0), Op::B(Bar::hlcv(4.0, 1.0, 1.0, 0.0))]);
    } else {
        v.extend([Op::S(1.0), Op::S(0.0), Op::S(-1.0), Op::S(3.0)]);
    }
    if kind.has_scalar() && kind.bar_native() {
        v.push(Op::S(0.0));
    }
    if kind.has_scalar() {
        // both zeros: equal under ==, different bits (cached-extreme indices may legitimately differ,
        // outputs of a clone may not)
        v.push(Op::S(-0.0));
    }
    v.push(Op::Reset);
    v
}

/// Run the lifecycle graphs of one fork kind for all indicators; returns rows for the evidence.
pub fn run_all(ctx: &Ctx, prop: &'static str, fork: Fork, periods: &[usize], tuple_vals: &[usize], max_states: usize, max_depth: usize) -> (JobOut, Vec<serde_json::Value>) {
    use crate::alpha::generic_cfgs;
    use crate::subjects::ALL_KINDS;
    let mut cfgs = vec![];
    for k in ALL_KINDS {
        cfgs.extend(generic_cfgs(k, periods, tuple_vals).into_iter().filter(|c| !(c.kind.has_mult() && c.mult == 0.5)));
    }
    cfgs.sort_by_key(|c| std::cmp::Reverse(c.max_period()));
    let outs = par_run(ctx, &cfgs, |_, cfg| {
        let mut out = JobOut::default();
        let alphabet = exact_alphabet(cfg.kind);
        let mut cont: Vec<Op> = alphabet.iter().copied().filter(|o| !matches!(o, Op::Reset)).take(3).collect();
        if cfg.kind.has_scalar() {
            cont.push(Op::S(-0.0));
            cont.push(Op::S(-5.0));
        }
        if fork != Fork::Reset {
            cont.push(Op::Reset);
        }
        let r = lifecycle_graph(ctx, prop, cfg, &alphabet, &cont, fork, max_states, max_depth, &mut out);
        out.stats.sample(|| format!("{} {:?} graph over {} symbols: {} states, depth {}, fixpoint {}", cfg.descr(), fork, alphabet.len(), r.states, r.depth, r.fixpoint));
        (out, r)
    });
    let mut rows = vec![];
    let mut all = JobOut::default();
    for (cfg, (o, r)) in cfgs.iter().zip(outs) {
        rows.push(serde_json::json!({"subject": cfg.descr(), "states": r.states, "transitions": r.transitions, "depth": r.depth, "fixpoint": r.fixpoint, "forks_state_identical": r.forks_state_identical, "forks_compared_behaviourally": r.forks_compared_behaviourally}));
        all.stats.merge(o.stats);
        all.violations.extend(o.violations);
    }
    (all, rows)
}
