//! C17 - windowed indicators forget: only the last n (or n+1) inputs matter.

use crate::engine::*;
use crate::refm::reference;
use crate::report::CheckResult;
use crate::subjects::{make, Cfg, Kind};
use crate::types::*;
use serde_json::json;

pub const PROP: &str = "C17";

fn exact_kind(k: Kind) -> bool {
    matches!(k, Kind::Min | Kind::Max | Kind::FastStoch)
}

fn to_op(kind: Kind, x: f64, i: usize) -> Op {
    if kind.has_scalar() {
        Op::S(x)
    } else {
        // valid bar around |x| with varying close position and volume
        let a = x.abs();
        Op::B(Bar { o: a, h: a * 1.25, l: a * 0.5, c: a * (0.5 + 0.25 * (i % 4) as f64), v: 1.0 + (i % 3) as f64 })
    }
}

fn last_of(cfg: &Cfg, ops: &[Op]) -> Option<Out> {
    std::panic::catch_unwind(std::panic::AssertUnwindSafe(|| {
        let mut s = make(cfg);
        let mut last = Out::NONE;
        for op in ops {
            last = s.apply(op);
        }
        last
    }))
    .ok()
}

/// True when the forgotten part of the history (everything before the last n inputs) contains a value
/// further from the window's mean than 8 times anything inside the window (a flat window makes every
/// different earlier value an outlier: C08 grants sqrt(tau)*M there).
fn evicted_outlier(full: &[Op], n: usize) -> bool {
    let suffix = &full[full.len() - n.min(full.len())..];
    let close = |o: &Op| match o {
        Op::S(x) => *x,
        Op::B(b) => b.c,
        Op::Reset => 0.0,
    };
    let k = suffix.len().max(1) as f64;
    let mean = suffix.iter().map(close).sum::<f64>() / k;
    let dev_s = suffix.iter().map(|o| (close(o) - mean).abs()).fold(0.0, f64::max);
    let dev_p = full[..full.len() - suffix.len()].iter().map(|o| (close(o) - mean).abs()).fold(0.0, f64::max);
    dev_p > 8.0 * dev_s
}

fn compare(cfg: &Cfg, full: &[Op], suffix: &[Op], a: &Out, b: &Out, out: &mut JobOut) -> bool {
    compare_at(cfg, full, full.len(), suffix, a, b, out)
}

/// `t`: number of inputs the long-running instance has consumed (`full` may be only the tail of that history)
fn compare_at(cfg: &Cfg, full: &[Op], t: usize, suffix: &[Op], a: &Out, b: &Out, out: &mut JobOut) -> bool {
    let m = full.iter().map(|o| o.maxmag()).fold(0.0, f64::max);
    let tl = tau(t);
    let mut why: Option<String> = None;
    if exact_kind(cfg.kind) {
        if !(a.v[0] == b.v[0]) {
            why = Some("comparison-only indicator must forget exactly".into());
        }
    } else {
        match cfg.kind {
            Kind::Sma | Kind::Wma | Kind::Mad => {
                if !((a.v[0] - b.v[0]).abs() <= tl * m) {
                    why = Some(format!("|diff|={:.3e} > tau(t)*M={:.3e}", (a.v[0] - b.v[0]).abs(), tl * m));
                }
            }
            Kind::Sd => {
                // the statement's tau(t)*M on the value itself; the sqrt-amplified rounding residue of an
                // EVICTED OUTLIER is measured the way C01 and C08 measure it (as a variance, tau(t)*M^2)
                let literal = (a.v[0] - b.v[0]).abs() <= tl * m;
                let as_var = (a.v[0] * a.v[0] - b.v[0] * b.v[0]).abs() <= tl * m * m;
                if !(literal || (as_var && evicted_outlier(full, cfg.p[0]))) {
                    why = Some(format!("|diff|={:.3e} > tau(t)*M={:.3e} (variance diff {:.3e}, tau(t)*M^2={:.3e}, evicted outlier: {})", (a.v[0] - b.v[0]).abs(), tl * m, (a.v[0] * a.v[0] - b.v[0] * b.v[0]).abs(), tl * m * m, evicted_outlier(full, cfg.p[0])));
                }
            }
            Kind::Bb => {
                if !((a.v[0] - b.v[0]).abs() <= tl * m) {
                    why = Some("average differs".into());
                }
                let k = cfg.mult.abs().max(1.0);
                for j in [1usize, 2] {
                    let (ha, hb) = (a.v[j] - a.v[0], b.v[j] - b.v[0]);
                    let literal = (ha - hb).abs() <= tl * m * k;
                    let as_var = (ha * ha - hb * hb).abs() <= tl * m * m * k * k;
                    if !(literal || (as_var && evicted_outlier(full, cfg.p[0]))) {
                        why = Some(format!("band half-width differs by {:.3e} > tau(t)*M*|mult|={:.3e}", (ha - hb).abs(), tl * m * k));
                    }
                }
            }
            Kind::Roc | Kind::Er | Kind::Cci | Kind::Mfi => {
                let mut r = reference(cfg, suffix);
                // MoneyFlowIndex decides "moved / did not move" on typical prices rounded to f64; the exact
                // reference may see a move of a fraction of an ulp where the f64 typical prices are equal.
                // A window whose f64 typical prices do not move has no money flow: degenerate (C08's business)
                if cfg.kind == Kind::Mfi {
                    let w = &suffix[suffix.len().saturating_sub(cfg.p[0] + 1)..];
                    let moved = w.windows(2).any(|p| match (&p[0], &p[1]) {
                        (Op::B(a), Op::B(b)) => a.tp() != b.tp() && b.v != 0.0,
                        _ => true,
                    });
                    if !moved {
                        r.den_zero = true;
                    }
                }
                if r.den_zero || (cfg.kind == Kind::Cci && r.neutral) {
                    // degenerate suffix window: C08's business
                    out.stats.skipped += 1;
                    return true;
                }
                // condition number with the magnitudes of the WHOLE history
                match cfg.kind {
                    Kind::Cci => r.cond = m / r.den,
                    Kind::Mfi => {
                        let rf = reference(cfg, since_reset(full));
                        r.cond = rf.maxflow.max(r.maxflow) / r.den.abs();
                        // largest flow anywhere in the history
                        let mut mf = 0.0f64;
                        for o in full {
                            if let Op::B(b) = o {
                                mf = mf.max((b.tp() * b.v).abs());
                            }
                        }
                        r.cond = mf / r.den.abs();
                    }
                    _ => {}
                }
                if !(r.cond <= 1e6) {
                    out.stats.skipped += 1;
                    return true;
                }
                let tol = tl * r.cond * r.scale;
                if !((a.v[0] - b.v[0]).abs() <= tol) {
                    why = Some(format!("|diff|={:.3e} > tau(t)*c*scale={:.3e} (c={:.3e})", (a.v[0] - b.v[0]).abs(), tol, r.cond));
                }
            }
            _ => unreachable!(),
        }
    }
    out.stats.evaluations += 1;
    if full.len() > suffix.len() {
        out.stats.nontrivial += 1;
    }
    if let Some(w) = why {
        out.fail(
            Violation::new(PROP, cfg, full, "remembers-beyond-window")
                .obs(out2s(a))
                .exp(format!("{} (a fresh instance fed only the last {} inputs)", out2s(b), suffix.len()))
                .det(format!("prefix of {} inputs still influences the output: {}", full.len() - suffix.len(), w)),
        );
        return false;
    }
    true
}

pub fn run(ctx: &Ctx) -> CheckResult {
    let mut res = CheckResult::new(PROP, "model_checking");
    let th = ctx.tier_thorough;
    let dp = if th { 4 } else { 3 };
    let extra = if th { 2 } else { 1 };
    let base_lo = [1.0, 2.0, 4.0, 7.0];
    // prefix alphabet: ordinary values + spikes 10^6 and 10^3 times larger + a negative spike
    let pre_lo: [f64; 9] = [1.0, 4.0, 7.0, 1e6, 7e6, -3e6, 2e3, 1.0e9, 3.7e10];
    // a high price level with a spread 10^9 times smaller (no outlier anywhere): formulas that
    // subtract two large accumulated quantities (sum of squares minus squared sum) lose everything here
    let base_hl = [1.0e7, 1.0e7 + 0.01, 1.0e7 + 0.02, 1.0e7 - 0.03];
    let pre_hl: [f64; 5] = [1.0e7, 1.0e7 + 0.01, 1.0e7 + 0.02, 1.0e7 - 0.03, 1.0e7 + 0.05];
    let mut cfgs = vec![];
    for n in 1..=4usize {
        for k in [Kind::Sma, Kind::Wma, Kind::Sd, Kind::Mad, Kind::Min, Kind::Max, Kind::FastStoch, Kind::Cci, Kind::Roc, Kind::Er, Kind::Mfi] {
            cfgs.push(Cfg::p1(k, n));
        }
        cfgs.push(Cfg::pm(Kind::Bb, n, 2.0));
    }
    let mut jobs: Vec<(Cfg, usize, bool)> = vec![];
    for c in &cfgs {
        for l in 0..=extra {
            // MoneyFlowIndex has the largest alphabets: the longest suffixes only for periods 1 and 2
            if c.kind == Kind::Mfi && c.p[0] >= 3 && l == 2 {
                continue;
            }
            jobs.push((*c, c.kind.window(c).unwrap() + l, false));
            // (for MFI the flag selects inexact prices and volumes: cancellation residue in the running
            // totals needs flows that are not exactly representable)
            if matches!(c.kind, Kind::Sma | Kind::Wma | Kind::Sd | Kind::Mad | Kind::Bb | Kind::Mfi) {
                jobs.push((*c, c.kind.window(c).unwrap() + l, true));
            }
        }
    }
    jobs.sort_by_key(|j| std::cmp::Reverse(j.1));
    let outs = par_run(ctx, &jobs, |_, (cfg, slen, hl)| {
        let mut out = JobOut::default();
        let mut prefixes: Vec<Vec<u8>> = vec![];
        let (base, pre_vals): (&[f64], &[f64]) = if *hl { (&base_hl, &pre_hl) } else { (&base_lo, &pre_lo) };
        let dpk = if (cfg.kind == Kind::Mfi && ctx.tier_thorough && cfg.p[0] <= 2) || (*hl && cfg.kind != Kind::Mfi) { dp + 1 } else { dp };
        // one extra symbol (index pre_vals.len()) stands for reset(): "any history" includes re-use
        for_each_seq(pre_vals.len() + 1, None, dpk, |s| {
            prefixes.push(s.to_vec());
            true
        });
        // MoneyFlowIndex: explicit bars with equal typical prices between different bars,
        // prefix symbols additionally contain bars with 1e3 / 1e6 times larger flows
        let mfi_base: Vec<Bar> = crate::alpha::b_mfi()[..4].to_vec();
        let mut mfi_pre: Vec<Bar> = crate::alpha::b_mfi();
        mfi_pre.push(Bar::hlcv(3e3, 1e3, 2e3, 1.0));
        mfi_pre.push(Bar::hlcv(2e3, 2e3, 2e3, 1e3));
        // zero-volume bars (padding) at a different price level
        mfi_pre.push(Bar::hlcv(0.5, 0.5, 0.5, 0.0));
        let mut mfi_base = mfi_base;
        mfi_base.push(Bar::hlcv(2.5, 2.5, 2.5, 0.0));
        if *hl && cfg.kind == Kind::Mfi {
            let f = |b: &Bar| Bar { o: b.o * 0.7 + 0.013, h: b.h * 0.7 + 0.013, l: b.l * 0.7 + 0.013, c: b.c * 0.7 + 0.013, v: if b.v == 0.0 { 0.0 } else { b.v * 130.0 + 7.0 } };
            mfi_base = mfi_base.iter().map(f).collect();
            mfi_pre = mfi_pre.iter().map(f).collect();
        }
        let mut suffix: Vec<Op> = vec![];
        let mut full: Vec<Op> = vec![];
        let mut n = 0u64;
        let nsym = if cfg.kind == Kind::Mfi { mfi_base.len() } else { base.len() };
        for_each_seq_exact(nsym, *slen, |sq| {
            n += 1;
            if n % 16 == 0 && ctx.out_of_time() {
                out.stats.capped.push(format!("time cap in {}", cfg.descr()));
                return false;
            }
            suffix.clear();
            if cfg.kind == Kind::Mfi {
                suffix.extend(sq.iter().map(|&a| Op::B(mfi_base[a as usize])));
            } else {
                suffix.extend(sq.iter().enumerate().map(|(i, &a)| to_op(cfg.kind, base[a as usize], i)));
            }
            let b = match last_of(cfg, &suffix) {
                Some(b) => b,
                None => {
                    out.fail(Violation::new(PROP, cfg, &suffix, "panic").obs("panic".into()).exp("outputs".into()));
                    return false;
                }
            };
            out.stats.transitions += suffix.len() as u64;
            for p in &prefixes {
                // negative prices make no sense for bar kinds and ratio kinds: use magnitudes there
                full.clear();
                if cfg.kind == Kind::Mfi {
                    full.extend(p.iter().map(|&a| if a as usize == pre_vals.len() { Op::Reset } else { Op::B(mfi_pre[a as usize % mfi_pre.len()]) }));
                } else {
                full.extend(p.iter().enumerate().map(|(i, &a)| {
                    if a as usize == pre_vals.len() {
                        return Op::Reset;
                    }
                    let x = pre_vals[a as usize];
                    let x = if matches!(cfg.kind, Kind::Roc | Kind::Er) { x.abs() } else { x };
                    to_op(cfg.kind, x, i + 1)
                }));
                }
                full.extend_from_slice(&suffix);
                out.stats.states += 1;
                out.stats.traces += 1;
                out.stats.transitions += full.len() as u64;
                let a = match last_of(cfg, &full) {
                    Some(a) => a,
                    None => {
                        out.fail(Violation::new(PROP, cfg, &full, "panic").obs("panic".into()).exp("outputs".into()));
                        return false;
                    }
                };
                if !compare(cfg, &full, &suffix, &a, &b, &mut out) {
                    return false;
                }
                // short prefixes also with the long-running instance serialized + restored / replaced by
                // its clone right before the last input
                let ends_in_reset = p.last().map(|&a| a as usize == pre_vals.len()).unwrap_or(false);
                if ends_in_reset && p.len() >= 2 && p.len() <= 3 {
                    // the long-running instance goes through a transformation right before the reset() that
                    // ends its prefix: replay prefix (minus the reset), transform, reset, suffix
                    for via in [Via::Serde, Via::CloneFromUsed] {
                        let plen = p.len();
                        let r = std::panic::catch_unwind(std::panic::AssertUnwindSafe(|| {
                            let mut s = make(cfg);
                            for op in &full[..plen - 1] {
                                s.apply(op);
                            }
                            s = apply_via(cfg, s, via);
                            let mut last = Out::NONE;
                            for op in &full[plen - 1..] {
                                last = s.apply(op);
                            }
                            last
                        }));
                        out.stats.transitions += full.len() as u64;
                        let ok = match r {
                            Ok(a2) => compare(cfg, &full, &suffix, &a2, &b, &mut out),
                            Err(_) => {
                                out.fail(Violation::new(PROP, cfg, &full, "panic").obs("panic".into()).exp("outputs".into()));
                                false
                            }
                        };
                        if !ok {
                            if let Some(v) = out.violations.last_mut() {
                                v.detail.push_str(&format!(" [the instance was {} right before the reset() at position {}]", via.text(), plen));
                                v.extra.insert("checkpoint".into(), format!("{}@{}", via.tag(), plen - 1));
                            }
                            return false;
                        }
                    }
                }
                if p.len() <= 1 {
                    for via in VIAS {
                        out.stats.transitions += full.len() as u64;
                        let ok = match replay_last_via(cfg, &full, via) {
                            Ok(a2) => compare(cfg, &full, &suffix, &a2, &b, &mut out),
                            Err(_) => {
                                out.fail(Violation::new(PROP, cfg, &full, "panic").obs("panic".into()).exp("outputs".into()));
                                false
                            }
                        };
                        if !ok {
                            if let Some(v) = out.violations.last_mut() {
                                v.detail.push_str(&format!(" [the instance was {} right before the last input]", via.text()));
                                v.extra.insert("checkpoint".into(), format!("{}@{}", via.tag(), full.len() - 1));
                            }
                            return false;
                        }
                    }
                }
            }
            true
        });
        out.stats.sample(|| format!("{}: {} prefixes (values 1,4,7 and spikes 1e6,7e6,-3e6,2e3, depth {}) x all 4^{} suffixes", cfg.descr(), prefixes.len(), dp, slen));
        out
    });
    res.absorb(merge_jobs(outs));
    // medium periods on tick-grid walks (ties, double tops / bottoms, a new extreme exactly when a tied one
    // leaves): at every step the long-running instance vs a fresh one fed the last w inputs
    if !res.out.failed() {
        let mut tw: Vec<Cfg> = vec![];
        for &n in if th { &[6usize, 9, 10, 14, 16, 20, 25, 33, 40][..] } else { &[9usize, 14, 20, 33][..] } {
            for k in [Kind::Sma, Kind::Wma, Kind::Sd, Kind::Mad, Kind::Min, Kind::Max, Kind::FastStoch, Kind::Cci, Kind::Roc, Kind::Er, Kind::Mfi] {
                tw.push(Cfg::p1(k, n));
            }
            tw.push(Cfg::pm(Kind::Bb, n, 2.0));
        }
        let len = if th { 8000 } else { 2500 };
        let outs = par_run(ctx, &tw, |_, cfg| {
            let mut out = JobOut::default();
            let w = cfg.kind.window(cfg).unwrap();
            let positive = matches!(cfg.kind, Kind::Roc | Kind::Er | Kind::Mfi | Kind::Cci);
            let walk = super::refcmp::tick_walk(len, ctx.seed, !cfg.kind.has_scalar(), positive, false);
            let r = std::panic::catch_unwind(std::panic::AssertUnwindSafe(|| {
                let mut s = make(cfg);
                walk.iter().map(|op| s.apply(op)).collect::<Vec<Out>>()
            }));
            let outs_long = match r {
                Ok(o) => o,
                Err(_) => {
                    out.fail(Violation::new(PROP, cfg, &walk[..], "panic").obs("panic".into()).exp("outputs".into()));
                    return out;
                }
            };
            out.stats.traces += 1;
            out.stats.transitions += len as u64;
            for t in w..len {
                let suffix = &walk[t + 1 - w..=t];
                let b = match last_of(cfg, suffix) {
                    Some(b) => b,
                    None => {
                        out.fail(Violation::new(PROP, cfg, suffix, "panic").obs("panic".into()).exp("outputs".into()));
                        return out;
                    }
                };
                out.stats.states += 1;
                out.stats.transitions += w as u64;
                if !compare(cfg, &walk[..=t], suffix, &outs_long[t], &b, &mut out) {
                    return out;
                }
            }
            out
        });
        res.absorb(merge_jobs(outs));
    }
    // long horizon: one instance fed past 2^22 inputs (periodic maintenance code - "re-sum every 2^20 updates" -
    // runs for the first time there) against a fresh instance fed the last window, around every power of two
    if !res.out.failed() {
        let h = super::refcmp::horizon_len(th);
        let ws = super::refcmp::tick_walk(h, ctx.seed ^ 0x17, false, true, false);
        let wb = super::refcmp::tick_walk(h, ctx.seed ^ 0x17, true, true, false);
        let mut hz: Vec<Cfg> = vec![];
        for k in [Kind::Sma, Kind::Wma, Kind::Sd, Kind::Mad, Kind::Min, Kind::Max, Kind::FastStoch, Kind::Cci, Kind::Roc, Kind::Er, Kind::Mfi] {
            hz.push(Cfg::p1(k, 20));
        }
        hz.push(Cfg::pm(Kind::Bb, 9, 2.0));
        let outs = par_run(ctx, &hz, |_, cfg| {
            let mut out = JobOut::default();
            let w = cfg.kind.window(cfg).unwrap();
            let walk: &[Op] = if cfg.kind.has_scalar() { &ws[..] } else { &wb[..] };
            let cps = super::refcmp::horizon_checkpoints(h, w);
            let r = std::panic::catch_unwind(std::panic::AssertUnwindSafe(|| {
                let mut s = make(cfg);
                let mut got: Vec<(usize, Out)> = Vec::with_capacity(cps.len());
                let mut ci = 0;
                for (i, op) in walk.iter().enumerate() {
                    let o = s.apply(op);
                    if ci < cps.len() && cps[ci] == i + 1 {
                        got.push((i + 1, o));
                        ci += 1;
                    }
                }
                got
            }));
            out.stats.traces += 1;
            out.stats.transitions += h as u64;
            let got = match r {
                Ok(g) => g,
                Err(_) => {
                    out.fail(Violation::new(PROP, cfg, &walk[h - 64..], "panic").obs("panic".into()).exp("outputs".into()).det(format!("tick-grid walk of {} inputs", h)));
                    return out;
                }
            };
            for (step, o) in got {
                if step < w {
                    continue;
                }
                let suffix = &walk[step - w..step];
                let b = match last_of(cfg, suffix) {
                    Some(b) => b,
                    None => {
                        out.fail(Violation::new(PROP, cfg, suffix, "panic").obs("panic".into()).exp("outputs".into()));
                        return out;
                    }
                };
                out.stats.states += 1;
                out.stats.transitions += w as u64;
                // (the comparison needs the largest magnitude and the evicted values of the whole history: the
                // last 4096 inputs stand in for it - the walk stays inside [1, 30.75] throughout)
                let from = step.saturating_sub(4096);
                let before = out.violations.len();
                if !compare_at(cfg, &walk[from..step], step, suffix, &o, &b, &mut out) {
                    if out.violations.len() > before {
                        if let Some(v) = out.violations.last_mut() {
                            v.detail.push_str(&format!(" [step {} of a tick-grid walk of {} inputs on one instance; ops shown = the last 4096]", step, h));
                        }
                    }
                    return out;
                }
            }
            out
        });
        res.extra.insert("long_horizon_steps".into(), json!(h));
        res.absorb(merge_jobs(outs));
    }
    // 2^32 + 2048 calls on one instance (a tick / call counter in a 32-bit type wraps there; a ring slot
    // derived from it jumps unless the period divides 2^32): every one of the last 4000 steps - before, at
    // and after the wrap - against a fresh instance fed the last window
    // (thorough tier: about 30 s per configuration here, several minutes on a slower machine)
    if th && !res.out.failed() {
        let mut hz: Vec<Cfg> = vec![Cfg::p1(Kind::Max, 10), Cfg::p1(Kind::Min, 14)];
        if th {
            hz.extend([Cfg::p1(Kind::Sma, 10), Cfg::p1(Kind::Roc, 10), Cfg::p1(Kind::Wma, 9), Cfg::p1(Kind::Sd, 10), Cfg::p1(Kind::FastStoch, 14), Cfg::p1(Kind::Mfi, 14)]);
        }
        let outs = par_run(ctx, &hz, |_, cfg| {
            let mut out = JobOut::default();
            let w = cfg.kind.window(cfg).unwrap();
            out.stats.traces += 1;
            out.stats.transitions += super::refcmp::CALLS_PAST_2_32;
            match super::refcmp::run_past_2_32(cfg, ctx.seed ^ 0x3217) {
                Err(done) => out.fail(Violation::new(PROP, cfg, &[], "panic").obs(format!("panic in call number {}", done + 1)).exp("outputs".into()).det("one instance fed an LCG-driven 64-level price grid".into())),
                Ok((ops, outs)) => {
                    let total = super::refcmp::CALLS_PAST_2_32 as usize;
                    for k in (w + 64)..ops.len() {
                        let suffix = &ops[k + 1 - w..=k];
                        let b = match last_of(cfg, suffix) {
                            Some(b) => b,
                            None => {
                                out.fail(Violation::new(PROP, cfg, suffix, "panic").obs("panic".into()).exp("outputs".into()));
                                return out;
                            }
                        };
                        out.stats.states += 1;
                        let step = total - (ops.len() - 1 - k);
                        let before = out.violations.len();
                        if !compare_at(cfg, &ops[..=k], step, suffix, &outs[k], &b, &mut out) {
                            if out.violations.len() > before {
                                if let Some(v) = out.violations.last_mut() {
                                    v.detail.push_str(&format!(" [call number {} on one instance (2^32 = 4294967296); ops shown = the calls since number {}]", step, total - ops.len() + 1));
                                }
                            }
                            return out;
                        }
                    }
                }
            }
            out
        });
        res.extra.insert("calls_on_one_instance".into(), json!(super::refcmp::CALLS_PAST_2_32));
        res.absorb(merge_jobs(outs));
    }
    // larger periods: spike-laden prefixes of several lengths x default suffixes of length w..w+2
    if !res.out.failed() {
        let periods: Vec<usize> = if th { vec![5, 6, 7, 8, 9, 13, 14, 16, 20, 31, 32, 33, 64, 100, 255, 256, 257] } else { vec![5, 8, 9, 14, 16, 20, 32, 33, 64] };
        let mut big = vec![];
        for &n in &periods {
            for k in [Kind::Sma, Kind::Wma, Kind::Sd, Kind::Mad, Kind::Min, Kind::Max, Kind::FastStoch, Kind::Cci, Kind::Roc, Kind::Er, Kind::Mfi] {
                big.push(Cfg::p1(k, n));
            }
            big.push(Cfg::pm(Kind::Bb, n, 2.0));
        }
        big.sort_by_key(|c| std::cmp::Reverse(c.p[0]));
        let outs = par_run(ctx, &big, |_, cfg| {
            let mut out = JobOut::default();
            let w = cfg.kind.window(cfg).unwrap();
            let mfi = crate::alpha::b_mfi();
            let val = |j: usize, pat: usize| -> f64 {
                match pat {
                    0 => 1.0 + (j % 7) as f64,
                    1 => 20.0 - (j % 5) as f64 * 1.5,
                    _ => {
                        if j % 4 < 2 {
                            3.0
                        } else {
                            5.0 + (j % 3) as f64
                        }
                    }
                }
            };
            let mk = |x: f64, j: usize| -> Op {
                if cfg.kind == Kind::Mfi {
                    // scaled B_mfi bars: equal typical prices occur between different bars
                    let b = mfi[j % mfi.len()];
                    let c = if x > 100.0 { x } else { 1.0 + (j / mfi.len() % 2) as f64 };
                    Op::B(Bar { o: b.o * c, h: b.h * c, l: b.l * c, c: b.c * c, v: b.v })
                } else {
                    to_op(cfg.kind, x, j)
                }
            };
            for pat in 0..3usize {
                for extra in 0..=2usize {
                    let slen = w + extra;
                    let suffix: Vec<Op> = (0..slen).map(|j| mk(val(j, pat), j)).collect();
                    let b = match last_of(cfg, &suffix) {
                        Some(b) => b,
                        None => {
                            out.fail(Violation::new(PROP, cfg, &suffix, "panic").obs("panic".into()).exp("outputs".into()));
                            return out;
                        }
                    };
                    for plen in [1usize, 2, w - 1, w, w + 1, 2 * w, 2 * w + 3] {
                        for spike in [1e6, 2e3] {
                            let mut full: Vec<Op> = (0..plen).map(|j| mk(if j % 3 == 0 { spike * (1.0 + (j % 2) as f64) } else { val(j + 1, (pat + 1) % 3) }, j + 2)).collect();
                            full.extend_from_slice(&suffix);
                            out.stats.states += 1;
                            out.stats.traces += 1;
                            out.stats.transitions += full.len() as u64;
                            let a = match last_of(cfg, &full) {
                                Some(a) => a,
                                None => {
                                    out.fail(Violation::new(PROP, cfg, &full, "panic").obs("panic".into()).exp("outputs".into()));
                                    return out;
                                }
                            };
                            if !compare(cfg, &full, &suffix, &a, &b, &mut out) {
                                return out;
                            }
                        }
                    }
                }
            }
            out
        });
        res.extra.insert("large_period_configurations".into(), json!(big.len()));
        res.absorb(merge_jobs(outs));
    }
    res.extra.insert("configurations".into(), json!(cfgs.len()));
    res.rule = "case = (configuration, prefix, suffix): the real output after prefix+suffix is compared with a fresh real instance fed only the suffix (length n or n+1, and up to 2 more): == for MIN/MAX/FAST_STOCH, tau(t)*M with t and M of the whole history for the accumulating ones (SD and Bollinger half-widths as variances, ratios times their condition number, gated at 1e6); a differential oracle with no hand-written expected values; prefixes may contain reset(); non-trivial = non-empty prefix".into();
    res.bounds = format!("SMA, WMA, SD, MAD, MIN, MAX, FAST_STOCH, BB, CCI (suffix n) and ROC, ER, MFI (suffix n+1), periods 1..4; every prefix over {{1,4,7,1e6,7e6,-3e6,2e3,1e9,3.7e10}} up to depth {dp}; every suffix over {{1,2,4,7}} of length w..w+{extra}; larger periods (up to 64/257): 3 suffix patterns of length w..w+2 after spike-laden prefixes of 7 lengths");
    res
}
