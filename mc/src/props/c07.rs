//! C07 - bounded oscillators stay inside their documented range.

use super::refcmp::Space;
use crate::alpha::*;
use crate::dd::Dd;
use crate::engine::*;
use crate::refm::reference;
use crate::regimes::*;
use crate::report::CheckResult;
use crate::subjects::{make, Cfg, Kind};
use crate::types::*;
use serde_json::json;
use std::collections::VecDeque;

pub const PROP: &str = "C07";
const SLACK: f64 = 1e-9;

fn range_of(kind: Kind) -> (f64, f64) {
    if kind == Kind::Er {
        (0.0, 1.0)
    } else {
        (0.0, 100.0)
    }
}

/// (applicable, slack)
fn applicability(cfg: &Cfg, t: usize, den_zero: bool, cond: f64) -> Result<f64, &'static str> {
    if den_zero {
        return Err("reference denominator is 0");
    }
    if cfg.kind == Kind::Mfi {
        if !(cond <= 1000.0) {
            return Err("MFI c > 1000 (degenerate window, C08)");
        }
        return Ok((100.0 * tau(t) * cond).max(SLACK));
    }
    // "up to 1e-9 of rounding slack": absolute, on the output's own scale
    Ok(SLACK)
}

fn judge(cfg: &Cfg, ops: &[Op], last: &Out, t: usize, den_zero: bool, cond: f64, out: &mut JobOut) {
    match applicability(cfg, t, den_zero, cond) {
        Err(why) => {
            out.stats.skipped += 1;
            out.stats.count(&format!("skip: {}", why));
        }
        Ok(slack) => {
            out.stats.evaluations += 1;
            let (lo, hi) = range_of(cfg.kind);
            let v = last.v[0];
            if v <= lo + 1e-6 * hi || v >= hi - 1e-6 * hi {
                out.stats.nontrivial += 1; // at or next to a range boundary
            }
            if !(v >= lo - slack && v <= hi + slack) {
                out.fail(
                    Violation::new(PROP, cfg, ops, "out-of-range")
                        .obs(out2s(last))
                        .exp(format!("a value in [{}, {}] (slack {:.3e})", lo, hi, slack))
                        .det(format!("t={}, reference denominator non-zero, c={:.3e}", t, cond)),
                );
            }
        }
    }
}

/// Incremental applicability tracker for long runs (O(n) per step, own window).
struct Tracker {
    cfg: Cfg,
    t: usize,
    prices: VecDeque<f64>,
    bars: VecDeque<Bar>,
    u: Dd,
    d: Dd,
    maxflow: f64,
}

impl Tracker {
    fn new(cfg: &Cfg) -> Tracker {
        Tracker { cfg: *cfg, t: 0, prices: VecDeque::new(), bars: VecDeque::new(), u: Dd::ZERO, d: Dd::ZERO, maxflow: 0.0 }
    }
    /// returns (den_zero, cond)
    fn step(&mut self, op: &Op) -> (bool, f64) {
        self.t += 1;
        let n = self.cfg.p[0];
        let b = match op {
            Op::S(x) => Bar::one(*x),
            Op::B(b) => *b,
            Op::Reset => unreachable!(),
        };
        match self.cfg.kind {
            Kind::Rsi => {
                let a = crate::refm::alpha(n);
                let one_a = Dd::ONE.sub(a);
                if self.t == 1 {
                    self.u = Dd::new(0.1);
                    self.d = Dd::new(0.1);
                } else {
                    let p = *self.prices.back().unwrap();
                    let (g, l) = if b.c > p { (Dd::new(b.c).subf(p), Dd::ZERO) } else { (Dd::ZERO, Dd::new(p).subf(b.c)) };
                    self.u = a.mul(g).add(one_a.mul(self.u));
                    self.d = a.mul(l).add(one_a.mul(self.d));
                }
                self.prices.clear();
                self.prices.push_back(b.c);
                let den = self.u.add(self.d).f();
                // negligible denominators (decayed seed / subnormal range) are C08's business
                (!(den > 1e-280), 1.0)
            }
            Kind::FastStoch => {
                self.bars.push_back(b);
                if self.bars.len() > n {
                    self.bars.pop_front();
                }
                let hi = self.bars.iter().map(|x| x.h).fold(f64::NEG_INFINITY, f64::max);
                let lo = self.bars.iter().map(|x| x.l).fold(f64::INFINITY, f64::min);
                (false, if hi == lo { 1.0 } else { 1.0 })
            }
            Kind::SlowStoch => (false, 1.0),
            Kind::Er => {
                self.prices.push_back(b.c);
                if self.prices.len() > n + 1 {
                    self.prices.pop_front();
                }
                if self.t == 1 {
                    return (b.c == 0.0, 1.0);
                }
                let mut vol = Dd::ZERO;
                for i in 1..self.prices.len() {
                    vol = vol.add(Dd::new(self.prices[i]).subf(self.prices[i - 1]).abs());
                }
                (vol.is_zero(), 1.0)
            }
            Kind::Mfi => {
                self.bars.push_back(b);
                if self.bars.len() > n + 1 {
                    self.bars.pop_front();
                }
                if self.t == 1 {
                    return (false, 1.0);
                }
                let tp = |b: &Bar| Dd::new(b.c).addf(b.h).addf(b.l).divf(3.0);
                let mut total = Dd::ZERO;
                let k = self.bars.len();
                for i in 1..k {
                    let a = tp(&self.bars[i - 1]);
                    let c = tp(&self.bars[i]);
                    if c.gt(a) || c.lt(a) {
                        let flow = c.mulf(self.bars[i].v);
                        total = total.add(flow);
                        if i == k - 1 {
                            self.maxflow = self.maxflow.max(flow.f().abs());
                        }
                    }
                }
                if total.is_zero() {
                    return (true, f64::INFINITY);
                }
                (false, self.maxflow / total.f().abs())
            }
            _ => unreachable!(),
        }
    }
}

fn macro_run(cfg: &Cfg, regimes: &[Regime], seglen: usize, m: f64, volumes: &[f64], bars: bool, seed: u64, out: &mut JobOut) {
    let mut g = Gen::new(m, seed);
    let mut ops: Vec<Op> = Vec::with_capacity(regimes.len() * seglen);
    for r in regimes {
        for i in 0..seglen {
            if bars {
                ops.push(Op::B(g.bar(*r, i, volumes)));
            } else {
                ops.push(Op::S(g.price(*r, i)));
            }
        }
    }
    out.stats.traces += 1;
    out.stats.states += ops.len() as u64;
    out.stats.transitions += ops.len() as u64;
    let res = std::panic::catch_unwind(std::panic::AssertUnwindSafe(|| {
        let mut s = make(cfg);
        ops.iter().map(|op| s.apply(op)).collect::<Vec<Out>>()
    }));
    let outs = match res {
        Ok(o) => o,
        Err(_) => {
            out.fail(Violation::new(PROP, cfg, &ops, "panic").obs("panic".into()).exp("values in range".into()));
            return;
        }
    };
    let mut tr = Tracker::new(cfg);
    for (i, op) in ops.iter().enumerate() {
        let (dz, c) = tr.step(op);
        out.stats.seen_output(&outs[i]);
        judge(cfg, &ops[..=i], &outs[i], i + 1, dz, c, out);
        if out.failed() {
            if let Some(v) = out.violations.last_mut() {
                v.detail.push_str(&format!(" regimes={:?} seglen={} m={}", regimes.iter().map(|r| r.name()).collect::<Vec<_>>(), seglen, m));
            }
            return;
        }
    }
}

pub fn run(ctx: &Ctx) -> CheckResult {
    let mut res = CheckResult::new(PROP, "model_checking");
    let th = ctx.tier_thorough;
    let (d, db, dv) = if th { (10, 6, 5) } else { (8, 5, 4) };
    let pos = s_ops(&S_POS);
    let int = s_ops(&S_INT);
    let grid = b_ops(&b_grid());
    let vol = b_ops(&b_vol());
    let mut spaces = vec![];
    for n in 1..=5usize {
        for k in [Kind::Rsi, Kind::FastStoch, Kind::Er] {
            spaces.push(Space { cfg: Cfg::p1(k, n), alphabet: with_reset(pos.clone()), depth: d, label: "S_pos+reset" });
            spaces.push(Space { cfg: Cfg::p1(k, n), alphabet: int.clone(), depth: d - 1, label: "S_int" });
        }
        for k in [Kind::Rsi, Kind::FastStoch, Kind::Er] {
            spaces.push(Space { cfg: Cfg::p1(k, n), alphabet: s_ops(&S_WIDE), depth: d - 1, label: "S_wide" });
        }
        spaces.push(Space { cfg: Cfg::p2(Kind::SlowStoch, n, 2), alphabet: s_ops(&S_WIDE), depth: d - 2, label: "S_wide" });
        // finite prices near the top of the f64 range, and neighbours a few ulps apart
        for k in [Kind::Rsi, Kind::FastStoch, Kind::Er] {
            spaces.push(Space { cfg: Cfg::p1(k, n), alphabet: s_ops(&S_HUGE), depth: d - 2, label: "S_huge" });
            spaces.push(Space { cfg: Cfg::p1(k, n), alphabet: s_ops(&S_ULP), depth: d - 2, label: "S_ulp" });
        }
        for k in [Kind::Rsi, Kind::FastStoch, Kind::Er] {
            spaces.push(Space { cfg: Cfg::p1(k, n), alphabet: s_ops(&S_SUBNORMAL), depth: d - 2, label: "S_subnormal" });
        }
        spaces.push(Space { cfg: Cfg::p2(Kind::SlowStoch, n, 2), alphabet: s_ops(&S_SUBNORMAL), depth: d - 3, label: "S_subnormal" });
        spaces.push(Space { cfg: Cfg::p2(Kind::SlowStoch, n, 2), alphabet: s_ops(&S_HUGE), depth: d - 3, label: "S_huge" });
        spaces.push(Space { cfg: Cfg::p2(Kind::SlowStoch, n, 2), alphabet: s_ops(&S_ULP), depth: d - 2, label: "S_ulp" });
        spaces.push(Space { cfg: Cfg::p1(Kind::FastStoch, n), alphabet: with_reset(grid.clone()), depth: db, label: "B_grid+reset" });
        // the close-reading indicators fed bars (gaps: the close moves further than the bar's own range)
        spaces.push(Space { cfg: Cfg::p1(Kind::Er, n), alphabet: with_reset(grid.clone()), depth: db, label: "B_grid+reset" });
        spaces.push(Space { cfg: Cfg::p1(Kind::Rsi, n), alphabet: with_reset(grid.clone()), depth: db - 1, label: "B_grid+reset" });
        spaces.push(Space { cfg: Cfg::p1(Kind::Mfi, n), alphabet: vol.clone(), depth: dv, label: "B_vol" });
        if n <= 3 {
            // deeper, with resets, over the 5-bar MFI alphabet (equal typical prices between different bars)
            spaces.push(Space { cfg: Cfg::p1(Kind::Mfi, n), alphabet: with_reset(b_ops(&b_mfi())), depth: if th { 9 } else { 7 }, label: "B_mfi+reset" });
        }
        for e in [1usize, 2, 3] {
            spaces.push(Space { cfg: Cfg::p2(Kind::SlowStoch, n, e), alphabet: pos.clone(), depth: d - 2, label: "S_pos" });
            spaces.push(Space { cfg: Cfg::p2(Kind::SlowStoch, n, e), alphabet: int.clone(), depth: d - 3, label: "S_int" });
            spaces.push(Space { cfg: Cfg::p2(Kind::SlowStoch, n, e), alphabet: grid.clone(), depth: db - 1, label: "B_grid" });
        }
    }
    // EMA periods that are multiples of 2^32 inside RSI / SlowStochastic
    for &n in &[1usize << 32, (1usize << 32) + 1, 5usize << 32] {
        spaces.push(Space { cfg: Cfg::p1(Kind::Rsi, n), alphabet: pos.clone(), depth: d - 2, label: "huge period" });
        spaces.push(Space { cfg: Cfg::p1(Kind::Rsi, n), alphabet: int.clone(), depth: d - 2, label: "huge period" });
        spaces.push(Space { cfg: Cfg::p2(Kind::SlowStoch, 3, n), alphabet: pos.clone(), depth: d - 2, label: "huge period" });
        spaces.push(Space { cfg: Cfg::p2(Kind::SlowStoch, 2, n), alphabet: grid.clone(), depth: db - 1, label: "huge period" });
    }
    let mut jobs: Vec<(usize, usize)> = vec![];
    for (i, s) in spaces.iter().enumerate() {
        for a in 0..s.alphabet.len() {
            jobs.push((i, a));
        }
    }
    // (spaces with periods beyond 2^32 after all the others: see refcmp::run_spaces)
    let (jobs_huge, jobs): (Vec<(usize, usize)>, Vec<(usize, usize)>) = jobs.into_iter().partition(|(i, _)| spaces[*i].label == "huge period");
    for part in [&jobs, &jobs_huge] {
        if res.out.failed() {
            break;
        }
        let outs = par_run(ctx, part, |_, (i, a)| {
            let sp = &spaces[*i];
            let mut out = JobOut::default();
            seq_job(ctx, PROP, &sp.cfg, &sp.alphabet, *a, sp.depth, &mut out, |ops, last, out| {
                let hist = since_reset(ops);
                if hist.is_empty() {
                    return;
                }
                let r = reference(&sp.cfg, hist);
                judge(&sp.cfg, ops, last, hist.len(), r.den_zero, r.cond, out);
            });
            out
        });
        res.absorb(merge_jobs(outs));
    }
    // the same histories (reduced depth) with the instance serialized + restored / replaced by its clone
    // right before the last operation
    if !res.out.failed() {
        let cap = if th { 5 } else { 4 };
        let jobs2: Vec<(usize, usize, Via)> = jobs.iter().filter(|(i, _)| spaces[*i].label != "huge period").flat_map(|(i, a)| VIAS.map(|v| (*i, *a, v))).collect();
        let outs = par_run(ctx, &jobs2, |_, (i, a, via)| {
            let sp = &spaces[*i];
            let mut out = JobOut::default();
            seq_job_via(ctx, PROP, &sp.cfg, &sp.alphabet, *a, sp.depth.min(cap), *via, &mut out, |ops, last, out| {
                let hist = since_reset(ops);
                if hist.is_empty() {
                    return;
                }
                let r = reference(&sp.cfg, hist);
                judge(&sp.cfg, ops, last, hist.len(), r.den_zero, r.cond, out);
            });
            out
        });
        res.absorb(merge_jobs(outs));
    }

    // medium periods on tick-grid walks (ties, plateaus, a new extreme exactly when a tied one leaves)
    if !res.out.failed() {
        let mut tw: Vec<(Cfg, bool)> = vec![];
        for n in (6..=40usize).filter(|n| th || n % 4 == 1 || *n == 14 || *n == 20) {
            for k in [Kind::Rsi, Kind::FastStoch, Kind::Er] {
                tw.push((Cfg::p1(k, n), false));
            }
            tw.push((Cfg::p2(Kind::SlowStoch, n, 3), false));
            tw.push((Cfg::p1(Kind::FastStoch, n), true));
            tw.push((Cfg::p2(Kind::SlowStoch, n, 3), true));
            tw.push((Cfg::p1(Kind::Mfi, n), true));
            tw.push((Cfg::p1(Kind::Er, n), true));
            tw.push((Cfg::p1(Kind::Rsi, n), true));
        }
        let len = if th { 2500 } else { 700 };
        let outs = par_run(ctx, &tw, |_, (cfg, bars)| {
            let mut out = JobOut::default();
            for (si, positive) in [(0u64, true), (9, false)] {
                if !positive && (*bars || cfg.kind == Kind::Rsi) {
                    continue;
                }
                let walk = super::refcmp::tick_walk(len, ctx.seed ^ si, *bars, positive, si == 9);
                let r = std::panic::catch_unwind(std::panic::AssertUnwindSafe(|| {
                    let mut s = make(cfg);
                    walk.iter().map(|op| s.apply(op)).collect::<Vec<Out>>()
                }));
                out.stats.traces += 1;
                out.stats.transitions += len as u64;
                match r {
                    Ok(outs) => {
                        for t in 0..len {
                            if matches!(walk[t], Op::Reset) {
                                continue;
                            }
                            let hist = since_reset(&walk[..=t]);
                            let r = reference(cfg, hist);
                            out.stats.states += 1;
                            judge(cfg, &walk[..=t], &outs[t], hist.len(), r.den_zero, r.cond, &mut out);
                            if out.failed() {
                                return out;
                            }
                        }
                    }
                    Err(_) => {
                        out.fail(Violation::new(PROP, cfg, &walk[..], "panic").obs("panic".into()).exp("outputs".into()));
                        return out;
                    }
                }
            }
            out
        });
        res.absorb(merge_jobs(outs));
    }

    // medium periods, up to three tie-producing deviations at every set of positions (props/devfam.rs):
    // peak then dip then a non-rising run, double bottoms one period apart, ... on the scalar and the bar path
    let mut devfam_seqs = 0u64;
    if !res.out.failed() {
        use super::devfam::*;
        let plan: Vec<(usize, usize, &[Dev])> = if th { vec![(9, 3, &DEVS_ALL[..]), (10, 3, &DEVS_ABS[..]), (14, 3, &DEVS_ABS[..]), (17, 3, &DEVS_ABS[..]), (17, 2, &DEVS_ALL[..]), (20, 2, &DEVS_ALL[..]), (33, 2, &DEVS_ALL[..])] } else { vec![(9, 3, &DEVS_ABS[..]), (9, 2, &DEVS_ALL[..]), (17, 2, &DEVS_ALL[..])] };
        let mut jobs: Vec<(Cfg, Base, usize, usize, &[Dev], bool)> = vec![];
        for &(n, k, devs) in &plan {
            for b in BASES {
                for kind in [Kind::FastStoch, Kind::Er, Kind::Rsi] {
                    jobs.push((Cfg::p1(kind, n), b, n, k, devs, false));
                }
                jobs.push((Cfg::p2(Kind::SlowStoch, n, 3), b, n, k, devs, false));
                jobs.push((Cfg::p1(Kind::FastStoch, n), b, n, k, devs, true));
                jobs.push((Cfg::p2(Kind::SlowStoch, n, 3), b, n, k, devs, true));
                jobs.push((Cfg::p1(Kind::Er, n), b, n, k, devs, true));
                if k <= 2 || n <= 10 {
                    jobs.push((Cfg::p1(Kind::Mfi, n), b, n, k, devs, true));
                }
            }
        }
        let outs = par_run(ctx, &jobs, |_, (cfg, b, n, k, devs, bars)| {
            let mut out = JobOut::default();
            let len = 3 * n + 3;
            for first in 0..len {
                if ctx.out_of_time() {
                    out.stats.capped.push(format!("time cap in deviation families of {}", cfg.descr()));
                    break;
                }
                for kk in 1..=*k {
                    let go = for_each_from(first, len, kk, devs, &mut |set| {
                        let ops = to_ops(&build(*b, *n, len, set), *bars);
                        out.stats.traces += 1;
                        out.stats.transitions += len as u64;
                        let r = std::panic::catch_unwind(std::panic::AssertUnwindSafe(|| {
                            let mut s = make(cfg);
                            ops.iter().map(|op| s.apply(op)).collect::<Vec<Out>>()
                        }));
                        let outs = match r {
                            Ok(o) => o,
                            Err(_) => {
                                out.fail(Violation::new(PROP, cfg, &ops, "panic").obs("panic".into()).exp("values in range".into()));
                                return false;
                            }
                        };
                        let mut tr = Tracker::new(cfg);
                        for (i, op) in ops.iter().enumerate() {
                            let (dz, c) = tr.step(op);
                            if i < first {
                                continue;
                            }
                            out.stats.states += 1;
                            judge(cfg, &ops[..=i], &outs[i], i + 1, dz, c, &mut out);
                            if out.failed() {
                                if let Some(v) = out.violations.last_mut() {
                                    v.detail.push_str(&format!(" {:?} base with deviations {:?}", b, set));
                                }
                                return false;
                            }
                        }
                        true
                    });
                    if !go {
                        return out;
                    }
                }
            }
            out
        });
        let m = merge_jobs(outs);
        devfam_seqs = m.stats.traces;
        res.absorb(m);
    }
    res.extra.insert("deviation_family_sequences".into(), json!(devfam_seqs));

    // macro-step regimes: all orderings of 3 segments
    if !res.out.failed() {
        let set = [Regime::Up, Regime::Down, Regime::Tick, Regime::Osc, Regime::Gap, Regime::Flat, Regime::Outlier, Regime::Stair];
        let ords = orderings(&set, 3);
        let seglens: Vec<usize> = if th { vec![50, 500] } else { vec![50, 300] };
        let periods: Vec<usize> = if th { vec![1, 2, 3, 4, 5, 14, 50] } else { vec![1, 2, 3, 5, 14] };
        let wide_vol = [1e-3, 1.0, 1e3, 1e9, 0.0, 7.0];
        let flat_vol = [1.0];
        let mut mjobs: Vec<(Cfg, Vec<Regime>, usize, bool, bool)> = vec![];
        for &n in &periods {
            for ord in &ords {
                for &l in &seglens {
                    if l > 100 && !(n == 1 || n == 3 || n == 14) {
                        continue;
                    }
                    for k in [Kind::Rsi, Kind::FastStoch, Kind::Er] {
                        mjobs.push((Cfg::p1(k, n), ord.clone(), l, false, false));
                    }
                    mjobs.push((Cfg::p2(Kind::SlowStoch, n, 3), ord.clone(), l, false, false));
                    mjobs.push((Cfg::p1(Kind::FastStoch, n), ord.clone(), l, true, false));
                    mjobs.push((Cfg::p2(Kind::SlowStoch, n, 2), ord.clone(), l, true, false));
                    mjobs.push((Cfg::p1(Kind::Mfi, n), ord.clone(), l, true, true));
                    mjobs.push((Cfg::p1(Kind::Mfi, n), ord.clone(), l, true, false));
                }
            }
        }
        // a few runs of several thousand steps (periodic maintenance code - "rebuild every 2048 updates" -
        // only runs there)
        {
            let long_set = [Regime::Osc, Regime::Tick, Regime::Stair, Regime::Gap];
            let long_len = if th { 6000 } else { 2600 };
            for ord in orderings(&long_set, 2) {
                for &n in &[2usize, 14] {
                    for k in [Kind::Rsi, Kind::FastStoch, Kind::Er] {
                        mjobs.push((Cfg::p1(k, n), ord.clone(), long_len, false, false));
                    }
                    mjobs.push((Cfg::p2(Kind::SlowStoch, n, 3), ord.clone(), long_len, true, false));
                    mjobs.push((Cfg::p1(Kind::Mfi, n), ord.clone(), long_len, true, true));
                    mjobs.push((Cfg::p1(Kind::Mfi, n), ord.clone(), long_len, true, false));
                }
            }
        }
        res.extra.insert("macro_runs".into(), json!(mjobs.len()));
        let chunks: Vec<&[(Cfg, Vec<Regime>, usize, bool, bool)]> = mjobs.chunks(16).collect();
        let outs = par_run(ctx, &chunks, |_, chunk| {
            let mut out = JobOut::default();
            for (cfg, ord, l, bars, wide) in chunk.iter() {
                if ctx.out_of_time() {
                    out.stats.capped.push("time cap in macro runs".into());
                    break;
                }
                macro_run(cfg, ord, *l, 10.0, if *wide { &wide_vol } else { &flat_vol }, *bars, ctx.seed, &mut out);
                if out.failed() {
                    break;
                }
            }
            out
        });
        res.absorb(merge_jobs(outs));
    }
    res.rule = "case = (configuration, history); the real output is required to lie in [0,100] ([0,1] for ER) with 1e-9 absolute slack (MFI: 100*tau(t)*c, applied when c<=1000) at every step whose reference denominator is non-zero; non-trivial = output at or within 1e-6 of a range boundary".into();
    res.bounds = format!("seq(S_pos+reset,{d}), seq(S_int,{}) and seq(S_wide={{1,3,1e9,1e17,1e-9}}, same depth), seq(S_huge={{1e307,7e307,2e307,4e307}}) seq(S_ulp = neighbours 1 and 4 ulps apart) and seq(S_subnormal = {{3,4,5,8}} x 4.9e-324 and 2.2e-308) for RSI/FAST_STOCH/ER, seq(B_grid+reset,{db}) FAST_STOCH, seq(B_vol,{dv}) and seq(B_mfi+reset,7/9) MFI, SLOW_STOCH (n x {{1,2,3}}) at reduced depth, periods 1..5; tick-grid walks of 700 / 2500 steps for periods 6..40; macro-step runs: all 8^3 orderings of {{up,down,tick,osc,gap,flat,outlier(1e9x),stair}} segments, scalar and bar paths, volumes spanning 1e-3..1e9; 16 orderings of 2 segments of 2600/6000 steps for periods 2 and 14", d - 1);
    res.assumptions = vec!["RSI denominators below 1e-280 (fully decayed averages) count as zero: such windows are C08's subject".into()];
    res
}
