//! C15 - composite indicators agree with wiring their public building blocks by hand.

use crate::alpha::*;
use crate::engine::*;
use crate::report::CheckResult;
use crate::subjects::{make, Cfg, Kind};
use crate::types::*;
use serde_json::json;
use ta::indicators::*;
use ta::Next;

pub const PROP: &str = "C15";

/// Hand-wired public parts, fed the same stream as the composite.
enum Wired {
    Bb(SimpleMovingAverage, StandardDeviation),
    Slow(FastStochastic, ExponentialMovingAverage),
    Atr(TrueRange, ExponentialMovingAverage),
    Macd(ExponentialMovingAverage, ExponentialMovingAverage, ExponentialMovingAverage),
    Ppo(ExponentialMovingAverage, ExponentialMovingAverage, ExponentialMovingAverage),
    Kc(ExponentialMovingAverage, AverageTrueRange),
    Ce(Maximum, Minimum, AverageTrueRange),
    Cci(SimpleMovingAverage, MeanAbsoluteDeviation),
}

fn wire(cfg: &Cfg) -> Wired {
    let p = cfg.p;
    match cfg.kind {
        Kind::Bb => Wired::Bb(SimpleMovingAverage::new(p[0]).unwrap(), StandardDeviation::new(p[0]).unwrap()),
        Kind::SlowStoch => Wired::Slow(FastStochastic::new(p[0]).unwrap(), ExponentialMovingAverage::new(p[1]).unwrap()),
        Kind::Atr => Wired::Atr(TrueRange::new(), ExponentialMovingAverage::new(p[0]).unwrap()),
        Kind::Macd => Wired::Macd(ExponentialMovingAverage::new(p[0]).unwrap(), ExponentialMovingAverage::new(p[1]).unwrap(), ExponentialMovingAverage::new(p[2]).unwrap()),
        Kind::Ppo => Wired::Ppo(ExponentialMovingAverage::new(p[0]).unwrap(), ExponentialMovingAverage::new(p[1]).unwrap(), ExponentialMovingAverage::new(p[2]).unwrap()),
        Kind::Kc => Wired::Kc(ExponentialMovingAverage::new(p[0]).unwrap(), AverageTrueRange::new(p[0]).unwrap()),
        Kind::Ce => Wired::Ce(Maximum::new(p[0]).unwrap(), Minimum::new(p[0]).unwrap(), AverageTrueRange::new(p[0]).unwrap()),
        Kind::Cci => Wired::Cci(SimpleMovingAverage::new(p[0]).unwrap(), MeanAbsoluteDeviation::new(p[0]).unwrap()),
        _ => unreachable!(),
    }
}

/// reset() on every hand-wired part (what a user who wired them would call)
fn reset_parts(w: &mut Wired) {
    use ta::Reset;
    match w {
        Wired::Bb(a, b) => {
            a.reset();
            b.reset();
        }
        Wired::Slow(a, b) => {
            a.reset();
            b.reset();
        }
        Wired::Atr(a, b) => {
            a.reset();
            b.reset();
        }
        Wired::Macd(a, b, c) | Wired::Ppo(a, b, c) => {
            a.reset();
            b.reset();
            c.reset();
        }
        Wired::Kc(a, b) => {
            a.reset();
            b.reset();
        }
        Wired::Ce(a, b, c) => {
            a.reset();
            b.reset();
            c.reset();
        }
        Wired::Cci(a, b) => {
            a.reset();
            b.reset();
        }
    }
}

/// Result of the hand-wired computation for one input: expected components and
/// per-component absolute tolerances (None = skip this step).
fn wired_step(w: &mut Wired, cfg: &Cfg, op: &Op, t: usize, m: f64, got: &Out) -> Option<Result<(), String>> {
    let tau = tau(t);
    let k = cfg.mult;
    let near = |a: f64, b: f64, tol: f64| a == b || (a - b).abs() <= tol;
    match (w, op) {
        (Wired::Bb(sma, sd), op @ (Op::S(_) | Op::B(_))) => {
            // bars: the public parts are fed the very same bar (their own bar paths read close)
            let (a, s) = match op {
                Op::S(x) => (sma.next(*x), sd.next(*x)),
                Op::B(b) => (sma.next(b), sd.next(b)),
                _ => unreachable!(),
            };
            if !near(got.v[0], a, tau * m) {
                return Some(Err(format!("average {} vs standalone SMA {}", f2s(got.v[0]), f2s(a))));
            }
            for (hw, name) in [(got.v[1] - got.v[0], "upper"), (got.v[0] - got.v[2], "lower")] {
                let want = k * s;
                if !near(hw * hw, want * want, tau * m * m * k * k + 8.0 * f64::EPSILON * m * want.abs()) || hw * want < 0.0 {
                    return Some(Err(format!("{} half-width {} vs multiplier * standalone SD {}", name, f2s(hw), f2s(want))));
                }
            }
            Some(Ok(()))
        }
        (Wired::Slow(fast, ema), op) => {
            let f = match op {
                Op::S(x) => fast.next(*x),
                Op::B(b) => fast.next(b),
                _ => return None,
            };
            let want = ema.next(f);
            // natural scale 100 (percent); inputs enter only through FastStochastic
            Some(if near(got.v[0], want, tau * m.max(100.0)) { Ok(()) } else { Err(format!("{} vs EMA(FastStochastic) {}", f2s(got.v[0]), f2s(want))) })
        }
        (Wired::Atr(tr, ema), op) => {
            let r = match op {
                Op::S(x) => tr.next(*x),
                Op::B(b) => tr.next(b),
                _ => return None,
            };
            let want = ema.next(r);
            Some(if near(got.v[0], want, tau * m) { Ok(()) } else { Err(format!("{} vs EMA(TrueRange) {}", f2s(got.v[0]), f2s(want))) })
        }
        (Wired::Macd(f, s, sig), op @ (Op::S(_) | Op::B(_))) => {
            let line = match op {
                Op::S(x) => f.next(*x) - s.next(*x),
                Op::B(b) => f.next(b) - s.next(b),
                _ => unreachable!(),
            };
            let sg = sig.next(line);
            let want = [line, sg, line - sg];
            for j in 0..3 {
                if !near(got.v[j], want[j], tau * m) {
                    return Some(Err(format!("component {}: {} vs three standalone EMAs {}", j, f2s(got.v[j]), f2s(want[j]))));
                }
            }
            Some(Ok(()))
        }
        (Wired::Ppo(f, s, sig), op @ (Op::S(_) | Op::B(_))) => {
            let (fv, sv) = match op {
                Op::S(x) => (f.next(*x), s.next(*x)),
                Op::B(b) => (f.next(b), s.next(b)),
                _ => unreachable!(),
            };
            if sv == 0.0 || !sv.is_finite() {
                // keep the signal EMA in step, but make no claim
                let _ = sig.next((fv - sv) / sv * 100.0);
                return None;
            }
            let line = (fv - sv) / sv * 100.0;
            let sg = sig.next(line);
            let c = fv.abs().max(sv.abs()) / sv.abs();
            if !(c <= 1e6) {
                return None;
            }
            let want = [line, sg, line - sg];
            for j in 0..3 {
                if !near(got.v[j], want[j], tau * c * 100.0 * if j == 2 { 2.0 } else { 1.0 }) && !(got.v[j].is_nan() && want[j].is_nan()) {
                    return Some(Err(format!("component {}: {} vs three standalone EMAs {}", j, f2s(got.v[j]), f2s(want[j]))));
                }
            }
            Some(Ok(()))
        }
        (Wired::Kc(ema, atr), op) => {
            let (avg, a) = match op {
                Op::S(x) => (ema.next(*x), atr.next(*x)),
                Op::B(b) => (ema.next((b.c + b.h + b.l) / 3.0), atr.next(b)),
                _ => return None,
            };
            let want = [avg, avg + k * a, avg - k * a];
            for j in 0..3 {
                if !near(got.v[j], want[j], tau * m * k.abs().max(1.0)) {
                    return Some(Err(format!("component {}: {} vs EMA +- multiplier*ATR {}", j, f2s(got.v[j]), f2s(want[j]))));
                }
            }
            Some(Ok(()))
        }
        (Wired::Ce(mx, mn, atr), Op::B(b)) => {
            let a = atr.next(b);
            let want = [mx.next(b) - k * a, mn.next(b) + k * a];
            for j in 0..2 {
                if !near(got.v[j], want[j], tau * m * k.abs().max(1.0)) {
                    return Some(Err(format!("component {}: {} vs Maximum/Minimum -+ multiplier*ATR {}", j, f2s(got.v[j]), f2s(want[j]))));
                }
            }
            Some(Ok(()))
        }
        (Wired::Cci(sma, mad), Op::B(b)) => {
            let tp = (b.c + b.h + b.l) / 3.0;
            let s = sma.next(tp);
            let d = mad.next(tp);
            if d == 0.0 {
                return Some(if got.v[0] == 0.0 { Ok(()) } else { Err(format!("{} although standalone MAD of the typical price is 0 (documented: 0)", f2s(got.v[0]))) });
            }
            let c = m / d;
            if !(c <= 1e6) {
                return None;
            }
            let want = (tp - s) / (0.015 * d);
            Some(if near(got.v[0], want, tau * c / 0.015) { Ok(()) } else { Err(format!("{} vs (TP - SMA(TP)) / (0.015 * MAD(TP)) = {}", f2s(got.v[0]), f2s(want))) })
        }
        _ => None,
    }
}

fn check_seq(cfg: &Cfg, ops: &[Op], out: &mut JobOut) {
    check_seq_via(cfg, ops, None, out)
}

/// `via`: at that step the composite (not the parts) is serialized + restored / replaced by its clone
fn check_seq_via(cfg: &Cfg, ops: &[Op], via: Option<(usize, Via)>, out: &mut JobOut) {
    out.stats.states += 1;
    out.stats.traces += 1;
    out.stats.transitions += 2 * ops.len() as u64;
    let r = std::panic::catch_unwind(std::panic::AssertUnwindSafe(|| {
        let mut s = make(cfg);
        let mut w = wire(cfg);
        let mut m = 0.0f64;
        let mut evals = 0u64;
        let mut skipped = 0u64;
        let mut t = 0usize;
        for (i, op) in ops.iter().enumerate() {
            if matches!(op, Op::Reset) {
                // composite and hand-wired parts are reset together (fresh parts = reset parts, C04);
                // via position usize::MAX: the composite is transformed right before every reset()
                if let Some((usize::MAX, v)) = via {
                    s = apply_via(cfg, s, v);
                }
                s.reset();
                // the hand-wired parts are reset with their own reset() (every other time they are rebuilt:
                // fresh parts = reset parts, C04)
                if i % 2 == 0 {
                    reset_parts(&mut w);
                } else {
                    w = wire(cfg);
                }
                m = 0.0;
                t = 0;
                continue;
            }
            t += 1;
            m = m.max(op.maxmag());
            if let Some((at, v)) = via {
                if at == i {
                    s = apply_via(cfg, s, v);
                }
            }
            let got = s.apply(op);
            match wired_step(&mut w, cfg, op, t, m, &got) {
                Some(Ok(())) => evals += 1,
                None => skipped += 1,
                Some(Err(why)) => return (evals, skipped, Some((i, got, why))),
            }
        }
        (evals, skipped, None)
    }));
    match r {
        Ok((e, sk, bad)) => {
            out.stats.evaluations += e;
            out.stats.skipped += sk;
            if ops.len() > cfg.max_period() {
                out.stats.nontrivial += 1;
            }
            if let Some((i, got, why)) = bad {
                // long generated streams: the artefact carries the last 64 operations and the step number
                let shown = if i >= 100_000 { &ops[i - 63..=i] } else { &ops[..=i] };
                let why = if i >= 100_000 { format!("{} [step {} of a generated stream; ops shown = the last 64]", why, i + 1) } else { why };
                let mut v = Violation::new(PROP, cfg, shown, "composite-differs-from-parts").obs(out2s(&got)).exp("the documented combination of separately constructed public parts".into()).det(why);
                if let Some((at, how)) = via {
                    v.detail.push_str(&if at == usize::MAX { format!(" [the composite was {} right before every reset()]", how.text()) } else { format!(" [the composite was {} before input {}]", how.text(), at + 1) });
                    v.extra.insert("checkpoint".into(), format!("{}@{}", how.tag(), at));
                }
                out.fail(v);
            }
        }
        Err(_) => out.fail(Violation::new(PROP, cfg, ops, "panic").obs("panic".into()).exp("outputs".into())),
    }
}

/// `Default::default()` composites against parts wired from the parameters the instance REPORTS.
fn check_defaults(out: &mut JobOut) {
    use crate::subjects::make_default;
    for k in [Kind::Bb, Kind::SlowStoch, Kind::Atr, Kind::Macd, Kind::Ppo, Kind::Kc, Kind::Ce, Kind::Cci] {
        let d = match std::panic::catch_unwind(|| make_default(k)) {
            Ok(d) => d,
            Err(_) => continue,
        };
        let mut cfg = k.default_cfg();
        if let Some(p) = d.period() {
            cfg.p[0] = p;
        }
        if let Some(m) = d.multiplier() {
            cfg.mult = m;
        }
        if cfg.periods().iter().any(|p| *p == 0) {
            continue;
        }
        let len = 3 * cfg.max_period() + 3;
        let pats = if matches!(k, Kind::Bb | Kind::Macd | Kind::Ppo) { super::refcmp::base_patterns_pos(len) } else { super::refcmp::base_patterns_bars(len) };
        for (name, base) in pats {
            let ops: Vec<Op> = base.as_ref().clone();
            out.stats.states += 1;
            out.stats.traces += 1;
            out.stats.transitions += 2 * len as u64;
            let r = std::panic::catch_unwind(std::panic::AssertUnwindSafe(|| {
                let mut s = make_default(k);
                let mut w = wire(&cfg);
                let mut m = 0.0f64;
                for (i, op) in ops.iter().enumerate() {
                    m = m.max(op.maxmag());
                    let got = s.apply(op);
                    if let Some(Err(why)) = wired_step(&mut w, &cfg, op, i + 1, m, &got) {
                        return Some((i, got, why));
                    }
                }
                None
            }));
            out.stats.evaluations += len as u64;
            match r {
                Ok(None) => {}
                Ok(Some((i, got, why))) => {
                    out.fail(
                        Violation::new(PROP, &cfg, &ops[..=i], "composite-differs-from-parts")
                            .obs(out2s(&got))
                            .exp("the documented combination of separately constructed public parts".into())
                            .det(format!("{} [instance obtained from {}::default(), which reports {}; parts wired from the reported parameters; stream {}]", why, k.rust_type(), cfg.descr(), name))
                            .with("constructor", format!("{}::default()", k.rust_type())),
                    );
                    return;
                }
                Err(_) => {
                    out.fail(Violation::new(PROP, &cfg, &ops, "panic").obs("panic".into()).exp("outputs".into()));
                    return;
                }
            }
        }
    }
}

pub fn run(ctx: &Ctx) -> CheckResult {
    let mut res = CheckResult::new(PROP, "model_checking");
    let th = ctx.tier_thorough;
    let (ds, db) = if th { (7, 6) } else { (6, 5) };
    let mut scal: Vec<f64> = S_INT.to_vec();
    scal.extend([0.1, 7.7, 1e-3, 16_777_217.0]);
    let scal_ops = s_ops(&scal);
    let bar_ops = b_ops(&b_grid());
    let mut jobs: Vec<(Cfg, Vec<Op>, usize)> = vec![];
    let singles = [1usize, 2, 3, 5, 14];
    for &n in &singles {
        for m in [2.0, 0.0, 0.5, 3.0, 2.618] {
            let side = m != 2.0;
            jobs.push((Cfg::pm(Kind::Bb, n, m), scal_ops.clone(), if side { ds - 2 } else { ds }));
            jobs.push((Cfg::pm(Kind::Kc, n, m), scal_ops.clone(), if side { ds - 2 } else { ds - 1 }));
            jobs.push((Cfg::pm(Kind::Kc, n, m), bar_ops.clone(), if side { db - 1 } else { db }));
            jobs.push((Cfg::pm(Kind::Ce, n, m), bar_ops.clone(), if side { db - 1 } else { db }));
        }
        jobs.push((Cfg::p1(Kind::Atr, n), scal_ops.clone(), ds));
        jobs.push((Cfg::p1(Kind::Atr, n), bar_ops.clone(), db));
        jobs.push((Cfg::p1(Kind::Cci, n), bar_ops.clone(), db));
        for e in [1usize, 3] {
            jobs.push((Cfg::p2(Kind::SlowStoch, n, e), scal_ops.clone(), ds - 1));
            jobs.push((Cfg::p2(Kind::SlowStoch, n, e), bar_ops.clone(), db));
        }
    }
    // with reset() in the alphabet: composite and parts are reset together
    for &n in &[1usize, 2, 3] {
        for e in [1usize, 3] {
            jobs.push((Cfg::p2(Kind::SlowStoch, n, e), with_reset(s_ops(&S_POS)), ds));
        }
        jobs.push((Cfg::pm(Kind::Bb, n, 2.0), with_reset(s_ops(&S_POS)), ds));
        jobs.push((Cfg::pm(Kind::Kc, n, 2.0), with_reset(bar_ops.clone()), db - 1));
        jobs.push((Cfg::pm(Kind::Ce, n, 3.0), with_reset(bar_ops.clone()), db - 1));
        jobs.push((Cfg::p1(Kind::Cci, n), with_reset(bar_ops.clone()), db - 1));
        jobs.push((Cfg::p1(Kind::Atr, n), with_reset(s_ops(&S_POS)), ds));
        jobs.push((Cfg::p3(Kind::Macd, n, n + 2, 2), with_reset(s_ops(&S_POS)), ds));
        jobs.push((Cfg::p3(Kind::Ppo, n + 2, n, 3), with_reset(s_ops(&S_POS)), ds));
    }
    // reset streams with one value 10^9 times larger than the others (a side accumulator started by a huge
    // value and forgotten by reset())
    {
        let mut hr = s_ops(&[1.0, 2.0, 4.0, 3.0e9]);
        hr.push(Op::Reset);
        for &n in &[2usize, 3, 4, 5] {
            jobs.push((Cfg::pm(Kind::Bb, n, 2.0), hr.clone(), ds + 1));
            jobs.push((Cfg::p3(Kind::Macd, n, n + 2, 2), hr.clone(), ds));
            jobs.push((Cfg::p2(Kind::SlowStoch, n, 2), hr.clone(), ds));
            jobs.push((Cfg::p1(Kind::Atr, n), hr.clone(), ds));
        }
    }
    // close-only composites driven with bars whose close is not mid-range (the grid has such bars)
    for &n in &[1usize, 2, 3, 5] {
        jobs.push((Cfg::pm(Kind::Bb, n, 2.0), bar_ops.clone(), db));
        jobs.push((Cfg::p3(Kind::Macd, n, n + 2, 2), bar_ops.clone(), db - 1));
        jobs.push((Cfg::p3(Kind::Ppo, n, n + 2, 2), bar_ops.clone(), db - 1));
    }
    // unvalidated bars (close outside [low, high], high < low, zero / negative fields): the wiring of a
    // composite from its parts does not depend on the bar being well-formed
    let free_ops = b_ops(&b_free());
    for &n in &[1usize, 2, 3, 5] {
        jobs.push((Cfg::p2(Kind::SlowStoch, n, 3), free_ops.clone(), db - 1));
        jobs.push((Cfg::pm(Kind::Kc, n, 2.0), free_ops.clone(), db - 1));
        jobs.push((Cfg::pm(Kind::Ce, n, 3.0), free_ops.clone(), db - 1));
        jobs.push((Cfg::p1(Kind::Atr, n), free_ops.clone(), db - 1));
        jobs.push((Cfg::p1(Kind::Cci, n), free_ops.clone(), db - 1));
    }
    // scalar and bar inputs mixed on ONE composite instance (and on its parts)
    let mixed: Vec<Op> = vec![Op::S(1.0), Op::B(Bar::hlc(2.0, 1.0, 2.0)), Op::S(4.0), Op::B(Bar::hlc(4.0, 1.0, 1.0)), Op::S(2.5), Op::B(Bar::hlc(4.0, 2.0, 4.0))];
    for &n in &[1usize, 2, 3, 5] {
        jobs.push((Cfg::p1(Kind::Atr, n), mixed.clone(), db + 1));
        jobs.push((Cfg::pm(Kind::Kc, n, 2.0), mixed.clone(), db + 1));
        jobs.push((Cfg::p2(Kind::SlowStoch, n, 3), mixed.clone(), db + 1));
        jobs.push((Cfg::pm(Kind::Bb, n, 2.0), mixed.clone(), db + 1));
        jobs.push((Cfg::p3(Kind::Macd, n, n + 2, 2), mixed.clone(), db + 1));
    }
    // the same composites in a tiny price unit (2^-60): absolute epsilons / thresholds in a composite or a part show here
    let tiny_s = s_ops(&S_TINY);
    let tiny_b = b_ops(&scale_bars(&b_grid(), TINY));
    for &n in &[1usize, 2, 3, 5] {
        jobs.push((Cfg::pm(Kind::Bb, n, 2.0), tiny_s.clone(), ds));
        jobs.push((Cfg::pm(Kind::Kc, n, 2.0), tiny_b.clone(), db - 1));
        jobs.push((Cfg::pm(Kind::Ce, n, 3.0), tiny_b.clone(), db - 1));
        jobs.push((Cfg::p1(Kind::Atr, n), tiny_b.clone(), db - 1));
        jobs.push((Cfg::p1(Kind::Cci, n), tiny_b.clone(), db));
        jobs.push((Cfg::p2(Kind::SlowStoch, n, 2), tiny_b.clone(), db - 1));
        jobs.push((Cfg::p3(Kind::Macd, n, n + 1, 2), tiny_s.clone(), ds));
        jobs.push((Cfg::p3(Kind::Ppo, n, n + 1, 2), tiny_s.clone(), ds));
    }
    for tri in [[1usize, 1, 1], [1, 2, 3], [3, 2, 1], [2, 7, 2], [12, 26, 9], [3, 3, 7]] {
        jobs.push((Cfg::p3(Kind::Macd, tri[0], tri[1], tri[2]), scal_ops.clone(), ds));
        jobs.push((Cfg::p3(Kind::Ppo, tri[0], tri[1], tri[2]), s_ops(&S_POS5), ds + 1));
        jobs.push((Cfg::p3(Kind::Ppo, tri[0], tri[1], tri[2]), scal_ops.clone(), ds - 1));
    }
    // split by first symbol for balance
    let mut split: Vec<(usize, usize)> = vec![];
    for (i, j) in jobs.iter().enumerate() {
        for a in 0..j.1.len() {
            split.push((i, a));
        }
    }
    let outs = par_run(ctx, &split, |_, (ji, first)| {
        let (cfg, alpha, depth) = &jobs[*ji];
        let mut out = JobOut::default();
        let mut ops: Vec<Op> = vec![];
        let mut n = 0u64;
        // full-length sequences; every step of each run is compared
        for_each_seq_exact(alpha.len(), depth - 1, |seq| {
            n += 1;
            if n % 2048 == 0 && ctx.out_of_time() {
                out.stats.capped.push(format!("time cap in {}", cfg.descr()));
                return false;
            }
            ops.clear();
            ops.push(alpha[*first]);
            ops.extend(seq.iter().map(|&a| alpha[a as usize]));
            check_seq(cfg, &ops, &mut out);
            // streams with reset(): also with the composite serialized + restored / copied with clone_from
            // right before each reset
            if !out.failed() && ops.iter().any(|o| matches!(o, Op::Reset)) {
                for v in [Via::Serde, Via::CloneFromUsed] {
                    check_seq_via(cfg, &ops, Some((usize::MAX, v)), &mut out);
                    if out.failed() {
                        break;
                    }
                }
            }
            !out.failed()
        });
        out.stats.sample(|| format!("{} on all {}^{} streams starting with {}", cfg.descr(), alpha.len(), depth - 1, op2s(&alpha[*first])));
        out
    });
    res.absorb(merge_jobs(outs));
    // larger periods and the documented defaults on default streams of 3n+5 inputs, every step compared;
    // also with the composite serialized + restored / cloned at the full window and one step later
    if !res.out.failed() {
        let mut big: Vec<Cfg> = vec![];
        for &n in &[9usize, 14, 20, 64, 257] {
            big.push(Cfg::pm(Kind::Bb, n, 2.0));
            big.push(Cfg::pm(Kind::Kc, n, 2.0));
            big.push(Cfg::pm(Kind::Ce, n, 3.0));
            big.push(Cfg::p1(Kind::Atr, n));
            big.push(Cfg::p1(Kind::Cci, n));
            big.push(Cfg::p2(Kind::SlowStoch, n, 3));
        }
        big.push(Cfg::p3(Kind::Macd, 12, 26, 9));
        big.push(Cfg::p3(Kind::Ppo, 12, 26, 9));
        big.push(Cfg::p2(Kind::SlowStoch, 14, 3));
        let outs = par_run(ctx, &big, |_, cfg| {
            let mut out = JobOut::default();
            let n = cfg.max_period();
            let len = 3 * n + 5;
            for pat in 0..2usize {
                let ops: Vec<Op> = (0..len)
                    .map(|i| {
                        let x = if pat == 0 { 50.0 + ((i * 37) % 101) as f64 * 0.37 + (i % 7) as f64 * 0.013 } else { 20.0 + ((i / 3) % 5) as f64 * 0.25 };
                        if cfg.kind.has_scalar() && !cfg.kind.bar_native() {
                            Op::S(x)
                        } else {
                            Op::B(Bar { o: x, h: x * 1.01, l: x * 0.99, c: x * (0.995 + 0.005 * (i % 3) as f64), v: 1.0 + (i % 4) as f64 })
                        }
                    })
                    .collect();
                check_seq(cfg, &ops, &mut out);
                // the same stream with one reset() (composite and parts together) at positions that are not
                // multiples of the period
                for at in [n + 1, n + n / 2 + 1, 2 * n - 1] {
                    if out.failed() {
                        return out;
                    }
                    if at < len {
                        let mut with_reset = ops.clone();
                        with_reset[at] = Op::Reset;
                        check_seq(cfg, &with_reset, &mut out);
                    }
                }
                for via in VIAS {
                    for at in [1usize, n / 2, n, n + 1, 2 * n + 1] {
                        if out.failed() {
                            return out;
                        }
                        check_seq_via(cfg, &ops, Some((at, via)), &mut out);
                    }
                }
            }
            out
        });
        res.absorb(merge_jobs(outs));
    }
    // long horizon: one instance fed past 2^22 inputs (periodic maintenance code inside a part - "rebuild
    // every 2^20 updates" - runs for the first time there), every step compared
    if !res.out.failed() {
        let h = super::refcmp::horizon_len(th);
        let ws = super::refcmp::tick_walk(h, ctx.seed ^ 0x15, false, true, false);
        let wb = super::refcmp::tick_walk(h, ctx.seed ^ 0x15, true, true, false);
        let hz: Vec<Cfg> = vec![Cfg::pm(Kind::Bb, 20, 2.0), Cfg::pm(Kind::Bb, 9, 2.618), Cfg::pm(Kind::Kc, 14, 2.0), Cfg::pm(Kind::Ce, 22, 3.0), Cfg::p1(Kind::Atr, 14), Cfg::p1(Kind::Cci, 20), Cfg::p2(Kind::SlowStoch, 14, 3), Cfg::p3(Kind::Macd, 12, 26, 9), Cfg::p3(Kind::Ppo, 12, 26, 9)];
        let outs = par_run(ctx, &hz, |_, cfg| {
            let mut out = JobOut::default();
            let bars = !(cfg.kind.has_scalar() && !cfg.kind.bar_native());
            check_seq(cfg, if bars { &wb[..] } else { &ws[..] }, &mut out);
            out
        });
        res.extra.insert("long_horizon_steps".into(), json!(h));
        res.absorb(merge_jobs(outs));
    }
    if !res.out.failed() {
        let mut o = JobOut::default();
        check_defaults(&mut o);
        res.absorb(o);
    }
    res.extra.insert("composite_configurations".into(), json!(jobs.len()));
    res.rule = "case = (composite configuration, stream): the real composite and separately constructed public parts (SMA, SD, EMA, FastStochastic, TrueRange, ATR, Minimum, Maximum, MAD) are fed the same stream; at every step the composite's outputs must equal the documented combination of the parts within tau(t)*M (variances for the Bollinger half-width, times the condition number for CCI/PPO, gated at 1e6); non-trivial = stream longer than the window".into();
    res.bounds = format!("BB/KC/CE periods {singles:?} x multipliers {{2,0,0.5,3,2.618}}, ATR, CCI, SLOW_STOCH (n x {{1,3}}), MACD/PPO over 6 period triples; all 9^{ds} mixed-sign/rough scalar streams and all 10^{db} valid-bar streams, all 6^(depth+1) streams mixing scalars and bars on one instance for ATR/KC/SLOW_STOCH/BB/MACD, all 10^(depth-1) streams of unvalidated bars for SLOW_STOCH/KC/CE/ATR/CCI (BB, MACD and PPO are driven with bars as well as scalars; streams with reset(), composite and parts reset together) (side multipliers 1-2 levels shallower); the positive scalar / bar alphabets in a 2^-60 price unit for periods {{1,2,3,5}}; periods 9, 14, 20, 64, 257 and the documented defaults on two default streams of 3n+5 inputs, also with the composite serialized + restored / cloned at 5 positions; one tick-grid walk of 2^22+4096 (thorough 2^23+4096) inputs per composite family, every step compared");
    res
}
