//! Controlled scheduler over REAL OS threads (C05).  K worker threads are parked
//! on channels; the explorer owns every indicator instance and, for each step
//! of a schedule, MOVES the chosen instance to the chosen worker, which performs
//! one operation and moves it back.  Exactly one step runs at a time, so the
//! schedule is fully owned by the explorer; thread identity is real, so
//! thread_local state introduced by a change behaves as it would for a user.

use crate::subjects::Subject;
use crate::types::*;
use std::sync::mpsc::{channel, Receiver, Sender};
use std::thread::JoinHandle;

pub enum Work {
    Apply(Box<dyn Subject>, Op),
    Clone(Box<dyn Subject>),
    Quit,
}

pub enum Done {
    Applied(Box<dyn Subject>, Out),
    Cloned(Box<dyn Subject>, Box<dyn Subject>),
    Panicked,
}

struct Worker {
    tx: Sender<Work>,
    rx: Receiver<Done>,
    handle: Option<JoinHandle<()>>,
}

pub struct Pool {
    workers: Vec<Worker>,
}

impl Pool {
    pub fn new(k: usize) -> Pool {
        let mut workers = vec![];
        for i in 0..k {
            let (tx, wrx) = channel::<Work>();
            let (wtx, rx) = channel::<Done>();
            let handle = std::thread::Builder::new()
                .name(format!("c05-worker-{}", i))
                .spawn(move || {
                    while let Ok(w) = wrx.recv() {
                        let d = match w {
                            Work::Quit => break,
                            Work::Apply(mut s, op) => {
                                match std::panic::catch_unwind(std::panic::AssertUnwindSafe(move || {
                                    let o = s.apply(&op);
                                    (s, o)
                                })) {
                                    Ok((s, o)) => Done::Applied(s, o),
                                    Err(_) => Done::Panicked,
                                }
                            }
                            Work::Clone(s) => {
                                match std::panic::catch_unwind(std::panic::AssertUnwindSafe(move || {
                                    let c = s.dup();
                                    (s, c)
                                })) {
                                    Ok((s, c)) => Done::Cloned(s, c),
                                    Err(_) => Done::Panicked,
                                }
                            }
                        };
                        if wtx.send(d).is_err() {
                            break;
                        }
                    }
                })
                .expect("spawn worker");
            workers.push(Worker { tx, rx, handle: Some(handle) });
        }
        Pool { workers }
    }
    pub fn size(&self) -> usize {
        self.workers.len()
    }
    /// Run one `next`/`reset` on worker `w`; None if the call panicked.
    pub fn apply(&self, w: usize, s: Box<dyn Subject>, op: Op) -> Option<(Box<dyn Subject>, Out)> {
        self.workers[w].tx.send(Work::Apply(s, op)).ok()?;
        match self.workers[w].rx.recv().ok()? {
            Done::Applied(s, o) => Some((s, o)),
            _ => None,
        }
    }
    /// Clone on worker `w`: returns (original, clone).
    pub fn clone_on(&self, w: usize, s: Box<dyn Subject>) -> Option<(Box<dyn Subject>, Box<dyn Subject>)> {
        self.workers[w].tx.send(Work::Clone(s)).ok()?;
        match self.workers[w].rx.recv().ok()? {
            Done::Cloned(s, c) => Some((s, c)),
            _ => None,
        }
    }
}

impl Drop for Pool {
    fn drop(&mut self) {
        for w in &mut self.workers {
            let _ = w.tx.send(Work::Quit);
        }
        for w in &mut self.workers {
            if let Some(h) = w.handle.take() {
                let _ = h.join();
            }
        }
    }
}

/// All merges (interleavings) of per-object operation counts: sequences of
/// object indices in which object i occurs counts[i] times.
pub fn merges(counts: &[usize]) -> Vec<Vec<u8>> {
    fn rec(left: &mut Vec<usize>, cur: &mut Vec<u8>, out: &mut Vec<Vec<u8>>) {
        if left.iter().all(|c| *c == 0) {
            out.push(cur.clone());
            return;
        }
        for i in 0..left.len() {
            if left[i] > 0 {
                left[i] -= 1;
                cur.push(i as u8);
                rec(left, cur, out);
                cur.pop();
                left[i] += 1;
            }
        }
    }
    let mut out = vec![];
    rec(&mut counts.to_vec(), &mut vec![], &mut out);
    out
}

/// Worker assignments for `len` steps on at most `k` workers, up to renaming
/// of workers (restricted growth strings) - sound because workers are
/// indistinguishable before first use.
pub fn assignments(len: usize, k: usize) -> Vec<Vec<u8>> {
    fn rec(len: usize, k: usize, cur: &mut Vec<u8>, maxv: u8, out: &mut Vec<Vec<u8>>) {
        if cur.len() == len {
            out.push(cur.clone());
            return;
        }
        let lim = if cur.is_empty() { 0 } else { (maxv + 1).min(k as u8 - 1) };
        for v in 0..=lim {
            cur.push(v);
            rec(len, k, cur, if cur.len() == 1 { 0 } else { maxv.max(v) }, out);
            cur.pop();
        }
    }
    let mut out = vec![];
    rec(len, k, &mut vec![], 0, &mut out);
    out
}

#[cfg(test)]
mod tests {
    use super::*;
    #[test]
    fn counts() {
        assert_eq!(merges(&[2, 2, 2]).len(), 90);
        assert_eq!(assignments(6, 2).len(), 32);
        assert_eq!(assignments(6, 3).len(), 122);
        assert_eq!(assignments(3, 3).len(), 5);
    }
}
