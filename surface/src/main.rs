//! Minimal-trait user types for C10: each implements ONLY the price traits an
//! indicator is documented to need.  If this crate stops compiling, the set of
//! user types accepted by some `Next<&T>` impl shrank.  At run time the
//! minimal types must give the same outputs as a full five-trait type.

use ta::indicators::*;
use ta::{Close, High, Low, Next, Open, Volume};

struct CloseOnly(f64);
impl Close for CloseOnly {
    fn close(&self) -> f64 {
        self.0
    }
}
struct LowOnly(f64);
impl Low for LowOnly {
    fn low(&self) -> f64 {
        self.0
    }
}
struct HighOnly(f64);
impl High for HighOnly {
    fn high(&self) -> f64 {
        self.0
    }
}
struct Hlc(f64, f64, f64);
impl High for Hlc {
    fn high(&self) -> f64 {
        self.0
    }
}
impl Low for Hlc {
    fn low(&self) -> f64 {
        self.1
    }
}
impl Close for Hlc {
    fn close(&self) -> f64 {
        self.2
    }
}
struct Hlcv(f64, f64, f64, f64);
impl High for Hlcv {
    fn high(&self) -> f64 {
        self.0
    }
}
impl Low for Hlcv {
    fn low(&self) -> f64 {
        self.1
    }
}
impl Close for Hlcv {
    fn close(&self) -> f64 {
        self.2
    }
}
impl Volume for Hlcv {
    fn volume(&self) -> f64 {
        self.3
    }
}
struct Cv(f64, f64);
impl Close for Cv {
    fn close(&self) -> f64 {
        self.0
    }
}
impl Volume for Cv {
    fn volume(&self) -> f64 {
        self.1
    }
}
/// full five-trait type with decoy values in the fields a minimal type lacks
struct Full {
    o: f64,
    h: f64,
    l: f64,
    c: f64,
    v: f64,
}
impl Open for Full {
    fn open(&self) -> f64 {
        self.o
    }
}
impl High for Full {
    fn high(&self) -> f64 {
        self.h
    }
}
impl Low for Full {
    fn low(&self) -> f64 {
        self.l
    }
}
impl Close for Full {
    fn close(&self) -> f64 {
        self.c
    }
}
impl Volume for Full {
    fn volume(&self) -> f64 {
        self.v
    }
}

const BARS: [(f64, f64, f64, f64); 8] = [
    (5.0, 2.0, 4.0, 7.0),
    (6.0, 3.0, 3.5, 0.5),
    (8.0, 1.0, 1.0, 3.0),
    (2.0, 0.5, 2.0, 9.0),
    (4.0, 3.0, 3.25, 2.0),
    (10.0, 1.0, 5.0, 4.5),
    (9.0, 0.5, 7.5, 1.0),
    (5.0, 3.0, 4.0, 8.0),
];

fn same(a: f64, b: f64) -> bool {
    a == b || (a.is_nan() && b.is_nan()) || (a - b).abs() <= 1e-12 * a.abs().max(b.abs())
}

macro_rules! check1 {
    ($fails:ident, $name:expr, $mk:expr, $min:expr, $full:expr, $out:expr) => {{
        let mut a = $mk;
        let mut b = $mk;
        for (i, bar) in BARS.iter().enumerate() {
            let x: Vec<f64> = $out(a.next(&$min(bar)));
            let y: Vec<f64> = $out(b.next(&$full(bar)));
            if x.len() != y.len() || x.iter().zip(y.iter()).any(|(p, q)| !same(*p, *q)) {
                println!("FAIL {} step {}: minimal type {:?} vs full type {:?}", $name, i + 1, x, y);
                $fails += 1;
                break;
            }
        }
    }};
}

fn main() {
    let mut fails = 0;
    let full = |b: &(f64, f64, f64, f64)| Full { o: 123.0, h: b.0, l: b.1, c: b.2, v: b.3 };
    let one = |x: f64| vec![x];
    for n in [1usize, 3] {
        let co = |b: &(f64, f64, f64, f64)| CloseOnly(b.2);
        check1!(fails, "SMA", SimpleMovingAverage::new(n).unwrap(), co, full, one);
        check1!(fails, "EMA", ExponentialMovingAverage::new(n).unwrap(), co, full, one);
        check1!(fails, "WMA", WeightedMovingAverage::new(n).unwrap(), co, full, one);
        check1!(fails, "SD", StandardDeviation::new(n).unwrap(), co, full, one);
        check1!(fails, "MAD", MeanAbsoluteDeviation::new(n).unwrap(), co, full, one);
        check1!(fails, "RSI", RelativeStrengthIndex::new(n).unwrap(), co, full, one);
        check1!(fails, "ER", EfficiencyRatio::new(n).unwrap(), co, full, one);
        check1!(fails, "ROC", RateOfChange::new(n).unwrap(), co, full, one);
        check1!(fails, "MACD", MovingAverageConvergenceDivergence::new(n, n + 1, 2).unwrap(), co, full, |o: MovingAverageConvergenceDivergenceOutput| vec![o.macd, o.signal, o.histogram]);
        check1!(fails, "PPO", PercentagePriceOscillator::new(n, n + 1, 2).unwrap(), co, full, |o: PercentagePriceOscillatorOutput| vec![o.ppo, o.signal, o.histogram]);
        check1!(fails, "BB", BollingerBands::new(n, 2.0).unwrap(), co, full, |o: BollingerBandsOutput| vec![o.average, o.upper, o.lower]);
        check1!(fails, "MIN", Minimum::new(n).unwrap(), |b: &(f64, f64, f64, f64)| LowOnly(b.1), full, one);
        check1!(fails, "MAX", Maximum::new(n).unwrap(), |b: &(f64, f64, f64, f64)| HighOnly(b.0), full, one);
        let hlc = |b: &(f64, f64, f64, f64)| Hlc(b.0, b.1, b.2);
        check1!(fails, "FAST_STOCH", FastStochastic::new(n).unwrap(), hlc, full, one);
        check1!(fails, "SLOW_STOCH", SlowStochastic::new(n, 2).unwrap(), hlc, full, one);
        check1!(fails, "ATR", AverageTrueRange::new(n).unwrap(), hlc, full, one);
        check1!(fails, "CCI", CommodityChannelIndex::new(n).unwrap(), hlc, full, one);
        check1!(fails, "KC", KeltnerChannel::new(n, 2.0).unwrap(), hlc, full, |o: KeltnerChannelOutput| vec![o.average, o.upper, o.lower]);
        check1!(fails, "CE", ChandelierExit::new(n, 3.0).unwrap(), hlc, full, |o: ChandelierExitOutput| vec![o.long, o.short]);
        check1!(fails, "MFI", MoneyFlowIndex::new(n).unwrap(), |b: &(f64, f64, f64, f64)| Hlcv(b.0, b.1, b.2, b.3), full, one);
    }
    let hlc = |b: &(f64, f64, f64, f64)| Hlc(b.0, b.1, b.2);
    check1!(fails, "TRUE_RANGE", TrueRange::new(), hlc, full, one);
    check1!(fails, "OBV", OnBalanceVolume::new(), |b: &(f64, f64, f64, f64)| Cv(b.2, b.3), full, one);
    println!("surface: {} comparisons failed", fails);
    std::process::exit(if fails == 0 { 0 } else { 1 });
}
