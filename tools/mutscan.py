#!/usr/bin/env python3
"""Mechanical mutation scan of /repo/src (classical mutation analysis, complementing the
hand-seeded changes under seeded/ and mutants/).

For every generated single-token mutant of the non-test code of /repo/src:
  1. apply it in a scratch worktree of /repo (never in /repo itself),
  2. run the repository's own unit tests; a mutant they kill (or that does not compile)
     is of no interest - the checks are meant to reach what the tests cannot,
  3. otherwise run the quick tier of the checks, cheapest first, until one reports a
     VIOLATION; a mutant no check reports is a SURVIVOR and is written to
     /verif/mutscan/survivors/<id>.patch for inspection (equivalent mutant, or blind spot).
Everything runs on scratch copies under /tmp/mutscan<k> (removed afterwards); results go to
/verif/evidence/mutation_scan.json.

usage: tools/mutscan.py [--workers 4] [--limit-per-file N] [--files substr] [--list]
"""
import glob, json, os, re, subprocess, sys, time, hashlib
from concurrent.futures import ThreadPoolExecutor

REPO = "/repo"
VERIF = "/verif"
ORDER = ["C11", "C15", "C16", "C03", "C02", "C09", "C07", "C13", "C14", "C08", "C10", "C18", "C12", "C06", "C04", "C17", "C01", "C05"]


def sh(cmd, cwd=None, env=None, timeout=3600):
    p = subprocess.run(cmd, shell=True, cwd=cwd, env=env, stdout=subprocess.PIPE, stderr=subprocess.STDOUT, timeout=timeout)
    return p.returncode, p.stdout.decode(errors="replace")


REL = [("<=", "<"), (">=", ">"), ("==", "!="), ("!=", "==")]


def mutate_line(line):
    """yield (operator name, new line) for one source line"""
    code = line.split("//")[0]
    if not code.strip():
        return
    st = code.strip()
    if st.startswith(("#", "use ", "pub use", "mod ", "pub mod", "///", "//!", "impl", "pub struct", "struct", "pub enum", "type ", "pub trait", "fn ", "pub fn", "pub(super) fn", "pub(crate) fn", "}", "{", "where")):
        return
    rest = line[len(code):]
    # relational operators (avoid generics / arrows / shifts)
    for m in re.finditer(r"(?<![<>=!\-])(<=|>=|==|!=)(?![=>])", code):
        a = m.group(1)
        b = dict(REL)[a]
        yield ("rel %s->%s" % (a, b), code[:m.start()] + b + code[m.end():] + rest)
    for m in re.finditer(r"(?<=\s)(<|>)(?=\s)", code):
        a = m.group(1)
        b = a + "="
        yield ("rel %s->%s" % (a, b), code[:m.start()] + b + code[m.end():] + rest)
        c = ">" if a == "<" else "<"
        yield ("rel %s->%s" % (a, c), code[:m.start()] + c + code[m.end():] + rest)
    # arithmetic (binary, surrounded by spaces)
    for m in re.finditer(r"(?<=\s)(\+|-|\*|/)(?=\s)", code):
        a = m.group(1)
        b = {"+": "-", "-": "+", "*": "/", "/": "*"}[a]
        yield ("arith %s->%s" % (a, b), code[:m.start()] + b + code[m.end():] + rest)
    for m in re.finditer(r"(\+=|-=)", code):
        a = m.group(1)
        b = "-=" if a == "+=" else "+="
        yield ("assign %s->%s" % (a, b), code[:m.start()] + b + code[m.end():] + rest)
    # constants
    for m in re.finditer(r"(?<![\w.])(\d+\.\d+|\d+)(?![\w.])", code):
        tok = m.group(1)
        if "." in tok:
            v = float(tok)
            alts = ["1.0" if v == 0.0 else "0.0"]
            if v not in (0.0, 1.0):
                alts.append(repr(v + 1.0))
        else:
            v = int(tok)
            alts = [str(v + 1)]
            if v > 0:
                alts.append(str(v - 1))
        for alt in alts:
            yield ("const %s->%s" % (tok, alt), code[:m.start()] + alt + code[m.end():] + rest)
    # method / field swaps
    for a, b in [(".high()", ".low()"), (".low()", ".high()"), (".close()", ".open()"), (".min(", ".max("), (".max(", ".min("), ("max3(", "min3("), (".abs()", ""), ("true", "false"), ("false", "true"),
                 ("self.fast_ema", "self.slow_ema"), ("self.up_ema_indicator", "self.down_ema_indicator"), ("&&", "||"), ("||", "&&"), (".is_none()", ".is_some()"), ("Some(", "None::<f64>.or(Some(")]:
        i = code.find(a)
        if i >= 0 and not (a in ("true", "false") and re.search(r"\w" + a + r"|" + a + r"\w", code)):
            yield ("swap %s->%s" % (a, b or "(removed)"), code[:i] + b + code[i + len(a):] + rest)
    # identifier swaps between fields / locals of the same kind
    for a, b in [("self.count", "self.period"), ("self.period", "self.count"), ("self.index", "self.count"), ("self.count", "self.index"), ("input", "old_val"), ("old_val", "input"),
                 ("self.sum_flat", "self.sum"), ("highest", "lowest"), ("lowest", "highest"), ("max_index", "cur_index"), ("min_index", "cur_index"), ("cur_index", "max_index"),
                 ("fast_val", "slow_val"), ("slow_val", "fast_val"), ("self.m2", "self.m"), ("delta2", "delta"), ("up_ema", "down_ema"), ("self.total_positive_money_flow", "self.total_negative_money_flow"),
                 ("self.prev_close", "None::<f64>"), ("self.previous_typical_price", "tp"), ("self.is_new", "false"), ("period as f64", "(period + 1) as f64"), ("count as f64", "period as f64"), ("period as f64", "count as f64")]:
        for m in re.finditer(re.escape(a) + r"(?![\w])", code):
            if m.start() > 0 and (code[m.start() - 1].isalnum() or code[m.start() - 1] == "_"):
                continue
            new = code[:m.start()] + b + code[m.end():]
            # do not turn an assignment target into a different declaration
            yield ("ident %s->%s" % (a, b), new + rest)
    # negated condition
    m = re.match(r"^(\s*(?:\} else )?if )(.+)( \{\s*)$", code)
    if m and not m.group(2).startswith("let "):
        yield ("negate condition", m.group(1) + "!(" + m.group(2) + ")" + m.group(3) + rest)
    # statement deletion: simple assignments / calls on self
    if re.match(r"^\s*self\.[\w.\[\]]+(\s*[+\-*/]?=\s*[^;]+|\.\w+\([^;]*\));\s*$", code):
        yield ("delete statement", re.match(r"^\s*", code).group(0) + "// (statement removed)" + "\n" if not line.endswith("\n") else re.match(r"^\s*", code).group(0) + "();\n")


def gen_mutants(files_filter=None, limit_per_file=None):
    muts = []
    for f in sorted(glob.glob(f"{REPO}/src/**/*.rs", recursive=True)):
        rel = os.path.relpath(f, REPO)
        if files_filter and files_filter not in rel:
            continue
        if rel.endswith(("lib.rs", "mod.rs", "test_helper.rs", "traits.rs")):
            continue
        lines = open(f).read().split("\n")
        per_file = []
        in_tests = False
        in_display = False
        for i, line in enumerate(lines):
            if "#[cfg(test)]" in line:
                in_tests = True
            if in_tests:
                break
            stmt = r"^\s*(self\.[\w.\[\]]+\s*[+\-*/]?=\s*[^;]+;|let (mut )?\w+(: \w+)? = [^;]+;)\s*$"
            if i + 1 < len(lines) and re.match(stmt, line) and re.match(stmt, lines[i + 1]) and line.strip() != lines[i + 1].strip() and "#[cfg(test)]" not in "".join(lines[:i]):
                per_file.append({"file": rel, "line": i + 1, "op": "swap adjacent statements", "old": line, "new": lines[i + 1], "line2": i + 2, "old2": lines[i + 1], "new2": line})
            for op, new in mutate_line(line + "\n"):
                new = new.rstrip("\n")
                if new == line:
                    continue
                per_file.append({"file": rel, "line": i + 1, "op": op, "old": line, "new": new})
        if limit_per_file and len(per_file) > limit_per_file:
            # deterministic thinning: evenly spaced
            step = len(per_file) / limit_per_file
            per_file = [per_file[int(k * step)] for k in range(limit_per_file)]
        muts.extend(per_file)
    for m in muts:
        m["id"] = hashlib.sha1(f"{m['file']}:{m['line']}:{m['op']}:{m['new']}".encode()).hexdigest()[:10]
    return muts


def make_patch(root, m):
    path = f"{root}/repo/{m['file']}"
    lines = open(path).read().split("\n")
    assert lines[m["line"] - 1] == m["old"], (m, lines[m["line"] - 1])
    lines[m["line"] - 1] = m["new"]
    if "line2" in m:
        assert lines[m["line2"] - 1] == m["old2"]
        lines[m["line2"] - 1] = m["new2"]
    open(path, "w").write("\n".join(lines))
    rc, out = sh("git diff -- src", cwd=f"{root}/repo")
    return out


def worker(k, muts, results):
    root = f"/tmp/mutscan{k}"
    sh(f"git -C {REPO} worktree remove --force {root}/repo; rm -rf {root}; mkdir -p {root}/out/evidence {root}/out/replays")
    rc, out = sh(f"git -C {REPO} worktree add -q --detach {root}/repo HEAD")
    if rc != 0:
        print("worktree:", out)
        return
    sh(f"mkdir -p {root}/mc {root}/surface && cp -r {VERIF}/mc/src {VERIF}/mc/Cargo.toml {VERIF}/mc/Cargo.lock {VERIF}/mc/.cargo {root}/mc/ && cp -r {VERIF}/surface/src {VERIF}/surface/Cargo.toml {VERIF}/surface/Cargo.lock {VERIF}/surface/.cargo {root}/surface/")
    sh(f"sed -i 's|path = \"/repo\"|path = \"{root}/repo\"|' {root}/mc/Cargo.toml {root}/surface/Cargo.toml")
    sh(f"sed -i 's|target-dir = .*|target-dir = \"{root}/target\"|' {root}/mc/.cargo/config.toml {root}/surface/.cargo/config.toml")
    env = dict(os.environ)
    env.update({"CARGO_TARGET_DIR": f"{root}/target", "VERIF_OUT_DIR": f"{root}/out", "VERIF_SURFACE_DIR": f"{root}/surface", "VERIF_REPO_DIR": f"{root}/repo", "CARGO_NET_OFFLINE": "true", "VERIF_BUDGET_S": "120"})
    tenv = dict(os.environ)
    tenv.update({"CARGO_TARGET_DIR": f"{root}/ttarget", "CARGO_NET_OFFLINE": "true"})
    sh("cargo build --release --offline 2>&1 | tail -n 3", cwd=f"{root}/mc", env=env)
    sh("cargo test --offline --lib --no-run 2>&1 | tail -n 3", cwd=f"{root}/repo", env=tenv)
    try:
        for m in muts:
            t0 = time.time()
            r = {"file": m["file"], "line": m["line"], "op": m["op"], "old": m["old"].strip(), "new": m["new"].strip()}
            try:
                patch = make_patch(root, m)
                rc, out = sh("cargo test --offline --lib 2>&1 | grep -E '^test result|^error' | head -2", cwd=f"{root}/repo", env=tenv, timeout=900)
                if "error" in out and "test result" not in out:
                    r["status"] = "does-not-compile"
                elif "136 passed; 0 failed" not in out:
                    r["status"] = "killed-by-repo-tests"
                else:
                    r["status"] = "survived"
                    for c in ORDER:
                        rc, out = sh(f"cargo build --release --offline -q 2>&1 | tail -n 5; {root}/target/release/mc check {c} quick", cwd=f"{root}/mc", env=env, timeout=1200)
                        if rc == 1 and "VIOLATION" in out:
                            r["status"] = "detected"
                            r["detected_by"] = c
                            first = [l.strip() for l in out.splitlines() if "first violation" in l]
                            r["first"] = first[0][:300] if first else None
                            break
                        if rc not in (0, 1):
                            r.setdefault("machinery", []).append({c: out[-300:]})
                    if r["status"] == "survived":
                        os.makedirs(f"{VERIF}/mutscan/survivors", exist_ok=True)
                        open(f"{VERIF}/mutscan/survivors/{m['id']}.patch", "w").write(patch)
            except Exception as e:
                r["status"] = "error"
                r["error"] = str(e)[:300]
            finally:
                sh("git checkout -- .", cwd=f"{root}/repo")
            r["wall_s"] = round(time.time() - t0, 1)
            results[m["id"]] = r
            print(f"[w{k}] {m['file']}:{m['line']} {m['op']}: {r['status']} {r.get('detected_by','')} ({r['wall_s']}s)", flush=True)
    finally:
        sh(f"git -C {REPO} worktree remove --force {root}/repo; rm -rf {root}")


def main():
    args = sys.argv[1:]
    workers, limit, filt, only_list = 4, None, None, False
    i = 0
    while i < len(args):
        if args[i] == "--workers":
            workers = int(args[i + 1]); i += 2
        elif args[i] == "--limit-per-file":
            limit = int(args[i + 1]); i += 2
        elif args[i] == "--files":
            filt = args[i + 1]; i += 2
        elif args[i] == "--list":
            only_list = True; i += 1
        else:
            print(__doc__); sys.exit(2)
    muts = gen_mutants(filt, limit)
    print(f"{len(muts)} mutants generated")
    if only_list:
        from collections import Counter
        print(Counter(m["file"] for m in muts))
        return
    out_path = f"{VERIF}/evidence/mutation_scan.json"
    results = {}
    if os.path.exists(out_path):
        try:
            results = json.load(open(out_path)).get("mutants", {})
        except Exception:
            results = {}
    todo = [m for m in muts if m["id"] not in results]
    print(f"{len(todo)} to run ({len(muts) - len(todo)} already in {out_path})")
    shards = [todo[k::workers] for k in range(workers)]
    with ThreadPoolExecutor(workers) as ex:
        futs = [ex.submit(worker, k, shards[k], results) for k in range(workers)]
        while any(not f.done() for f in futs):
            time.sleep(60)
            json.dump({"generated_by": "tools/mutscan.py", "mutants": dict(results)}, open(out_path, "w"), indent=1)
        for f in futs:
            f.result()
    from collections import Counter
    summary = Counter(r["status"] for r in results.values())
    json.dump({"generated_by": "tools/mutscan.py", "summary": dict(summary), "mutants": results}, open(out_path, "w"), indent=1)
    print(dict(summary))


if __name__ == "__main__":
    main()
