#!/usr/bin/env python3
"""Regenerates /verif/MANIFEST.json from the table below (single source of truth)."""
import json, os, sys

BUILT = {
    # id: (category, technique, text, note, design_ref)
    "C01": ("model_checking",
            "bounded-exhaustive sequence enumeration + explicit-state BFS fixpoint on the real code vs reference model",
            "Every operation sequence over S_int+reset (depth 8/10) and S_rough (depth 6/8) for periods 1..5 replayed on fresh real instances and compared with a from-scratch double-double statistic of the last min(t,n) inputs; explicit-state fixpoint (all reachable states, all edges) for SMA/WMA/MAD/MIN/MAX over the exact alphabet; deviation-bounded families (outlier/zero at every position) for periods up to 1024.",
            "Finite value alphabets; depth-bounded for SD/BB; periods exhaustive to 5 and deviation-bounded above. Trusted: rustc IEEE semantics, the ~150-line double-double reference.",
            "DESIGN.md 4/C01"),
    "C02": ("model_checking",
            "bounded-exhaustive sequence enumeration on the real code vs from-scratch reference recursion",
            "Every scalar sequence over S_int+{7.7,1e6}+reset (depth 7/9) and every bar sequence over the 10-bar grid+reset (depth 5/7) for EMA, TrueRange, ATR, MACD (all triples over {1,2,3,7}), KeltnerChannel and ChandelierExit (multipliers 2,0,0.5,3) replayed on fresh real instances and compared with the documented recursion evaluated over the whole history in double-double; long default streams with <=1 deviation for periods up to 1024.",
            "EMA state space is unbounded, so the result is depth-bounded plus fixed long streams; valid bars only.",
            "DESIGN.md 4/C02"),
    "C03": ("model_checking",
            "bounded-exhaustive sequence enumeration on the real code vs documented formulas with condition-number gating",
            "Every sequence of positive prices (depth 8/10) / valid bars (depth 5/6) / bars with volume (depth 4/5) for RSI, FastStochastic, SlowStochastic, ROC, ER, PPO, CCI, MFI, OBV with periods 1..5 replayed on fresh instances and compared with the documented formula from scratch at tolerance tau(t)*c*scale; zero-denominator and c>1e6 steps are skipped and counted; deviation families up to period 512.",
            "Positive prices / valid bars only; finite alphabets; depth-bounded for EMA-based oscillators.",
            "DESIGN.md 4/C03"),
    "C04": ("model_checking",
            "bounded-exhaustive history enumeration with explicit-state de-duplication of post-reset states; differential oracle vs fresh instance",
            "For all 22 indicators (periods 1..4, tuples over {1,2,3}): every prefix history over values, NaN/inf/extreme values and resets up to depth 4/6, then reset(), then every continuation of length max(n+2,4) over finite values, NaN and +inf compared step by step with a fresh instance; continuations explored once per distinct post-reset concrete state (bincode+Debug); Display/period()/multiplier() compared; long-prefix family for periods up to 64/256.",
            "De-duplication assumes equal bincode+Debug state implies equal futures; every reported difference is a real execution.",
            "DESIGN.md 4/C04"),
    "C05": ("model_checking",
            "exhaustive schedule enumeration with a controlled scheduler over real OS threads; oracle = bit-identical to fresh sequential replay",
            "For all 22 indicators (periods 1,3) and every history up to depth 3 at which a clone is taken: all 90 interleavings of 2-operation continuations on {original, clone, unrelated instance}; every assignment of the 6 steps to 2 (thorough: 3) real worker threads up to renaming for three canonical interleavings, clone taken on either worker; every pair of continuations for original and clone; each output must be bit-identical to a fresh instance replaying that object's own operations. A sampled free-running 16-thread stage is supplementary and labelled as sampling.",
            "Operation-level atomicity is complete only while instances share no memory; a syntactic audit of /repo/src re-checks that premise on every run and the evidence says so if it trips. Merges x assignments are covered as a union of slices, not the full product.",
            "DESIGN.md 2.3, 4/C05"),
    "C06": ("model_checking",
            "bounded-exhaustive history enumeration; every prefix a checkpoint (crash point), de-duplicated by concrete state; differential oracle original-by-replay vs restored copy",
            "For all 22 indicators (periods 1..4): every history over values, NaN and resets up to depth 4/6 is a checkpoint; the real object is serialized with bincode and restored once and twice; every continuation of n+2 inputs is fed to the original (rebuilt by replay) and both restored copies and compared at 1e-12 relative; Display/period()/multiplier() compared; every lattice DataItem that build() accepts round-trips to an equal value.",
            "bincode only; continuation alphabet of 3 finite values.",
            "DESIGN.md 4/C06"),
    "C07": ("model_checking",
            "bounded-exhaustive sequence enumeration + exhaustive orderings of macro-step regimes; range invariant on every state",
            "RSI, FastStochastic, SlowStochastic, MFI, ER: every sequence over positive and mixed-sign alphabets / valid bars / bars with volume for periods 1..5, and all 6^3 orderings of {up, down, one-tick, oscillation, gap, flat} segments (scalar and bar paths, volumes 1e-3..1e9); at every step whose reference denominator is non-zero the output must lie in [0,100] ([0,1]) with the stated slack.",
            "Inside a macro regime values follow a fixed generator; MFI gated at c<=1000 as the statement says.",
            "DESIGN.md 4/C07"),
    "C08": ("model_checking",
            "bounded-exhaustive enumeration of active prefixes x flat levels x stretch lengths on the real code; neutral-value invariant",
            "All 22 indicators, periods 1..8: every active prefix over {2,0.3,1e6,7.7,1e9} up to depth 4 (3 for exponential-memory kinds at small periods), five flat levels, scalar / one-price-bar / same-bar / zero-volume stretches of every length up to 64..1300 (thorough 600..6000): at every step with a degenerate reference window the output must be finite, in range and neutral where a neutral value is documented.",
            "Finite prefix alphabet; stretch lengths bounded (long enough for period<=3 exponential averages to underflow).",
            "DESIGN.md 4/C08"),
}

NOT_YET = "check not built yet in this revision of /verif (work in progress; see DESIGN.md section 4)"
NA = {
    "C19": "compile-time trait-surface fact decided by the type checker; there is no behaviour, state or schedule to enumerate, so model checking does not apply (DESIGN.md 4/C19)",
}

def main():
    props = [json.loads(l) for l in open('/verif/properties.jsonl')]
    checks, na = [], []
    for p in props:
        i = p['id']
        if i in BUILT:
            cat, tech, text, note, ref = BUILT[i]
            checks.append({
                "property_id": i,
                "quick_cmd": f"./run check {i} quick",
                "thorough_cmd": f"./run check {i} thorough",
                "evidence_file": f"/verif/evidence/{i}.json",
                "replay_cmd_template": "./run replay {path}",
                "engine": "mc",
                "level_claimed": {"category": cat, "text": text, "design_ref": ref},
                "level_note": note,
                "technique": tech,
            })
        else:
            na.append({"property_id": i, "reason": NA.get(i, NOT_YET)})
    m = {
        "version": 1,
        "setup_cmd": "./run setup",
        "hooks": {
            "guard": "ta_verif",
            "enable": "none needed: the harness drives the public API of /repo (path dependency, feature serde); no hook commits exist",
            "baseline_off_cmd": "cd /repo && cargo test --workspace --no-fail-fast --offline",
            "source_commits": [],
            "add_only": True,
        },
        "engines": [
            {"name": "mc", "path": "/verif/mc", "serves_properties": sorted(BUILT.keys()),
             "kind_free_text": "Rust harness: replay-based bounded-exhaustive sequence explorer, explicit-state BFS keyed on the real object's bincode+Debug state, controlled OS-thread scheduler, stateright cross-check; reference models in double-double arithmetic"},
        ],
        "checks": checks,
        "not_applicable": na,
        "notes": "Exit 0 = held on everything explored (KNOWN-FINDING lines possible), 1 = VIOLATION line, 2 = machinery problem (build failure, vacuity, engine disagreement). Known findings: /verif/known_findings.json.",
    }
    json.dump(m, open('/verif/MANIFEST.json', 'w'), indent=1)
    try:
        import jsonschema
        jsonschema.validate(m, json.load(open('/root/.vp/MANIFEST.schema.json')))
        print("MANIFEST.json valid;", len(checks), "checks,", len(na), "not_applicable")
    except ImportError:
        print("written (jsonschema not available to validate)")

if __name__ == '__main__':
    main()
