#!/usr/bin/env python3
"""Regenerates /verif/MANIFEST.json from the table below (single source of truth)."""
import json, os, sys

BUILT = {
    # id: (category, technique, text, note, design_ref)
    "C01": ("model_checking",
            "bounded-exhaustive sequence enumeration + explicit-state BFS fixpoint on the real code vs reference model",
            "Every operation sequence over S_int+reset (depth 8/10) and S_rough (depth 6/8) for periods 1..5 replayed on fresh real instances and compared with a from-scratch double-double statistic of the last min(t,n) inputs; explicit-state fixpoint (all reachable states, all edges) for SMA/WMA/MAD/MIN/MAX over the exact alphabet; deviation-bounded families (outlier/zero at every position) for periods up to 1024.",
            "Finite value alphabets; depth-bounded for SD/BB; periods exhaustive to 5 and deviation-bounded above. Trusted: rustc IEEE semantics, the ~150-line double-double reference.",
            "DESIGN.md 4/C01"),
    "C02": ("model_checking",
            "bounded-exhaustive sequence enumeration on the real code vs from-scratch reference recursion",
            "Every scalar sequence over S_int+{7.7,1e6}+reset (depth 7/9) and every bar sequence over the 10-bar grid+reset (depth 5/7) for EMA, TrueRange, ATR, MACD (all triples over {1,2,3,7}), KeltnerChannel and ChandelierExit (multipliers 2,0,0.5,3) replayed on fresh real instances and compared with the documented recursion evaluated over the whole history in double-double; long default streams with <=1 deviation for periods up to 1024.",
            "EMA state space is unbounded, so the result is depth-bounded plus fixed long streams; valid bars only.",
            "DESIGN.md 4/C02"),
    "C03": ("model_checking",
            "bounded-exhaustive sequence enumeration on the real code vs documented formulas with condition-number gating",
            "Every sequence of positive prices (depth 8/10) / valid bars (depth 5/6) / bars with volume (depth 4/5) for RSI, FastStochastic, SlowStochastic, ROC, ER, PPO, CCI, MFI, OBV with periods 1..5 replayed on fresh instances and compared with the documented formula from scratch at tolerance tau(t)*c*scale; zero-denominator and c>1e6 steps are skipped and counted; deviation families up to period 512.",
            "Positive prices / valid bars only; finite alphabets; depth-bounded for EMA-based oscillators.",
            "DESIGN.md 4/C03"),
    "C04": ("model_checking",
            "bounded-exhaustive history enumeration with explicit-state de-duplication of post-reset states; differential oracle vs fresh instance",
            "For all 22 indicators (periods 1..4, tuples over {1,2,3}): every prefix history over values, NaN/inf/extreme values and resets up to depth 4/6, then reset(), then every continuation of length max(n+2,4) over finite values, NaN and +inf compared step by step with a fresh instance; continuations explored once per distinct post-reset concrete state (bincode+Debug); Display/period()/multiplier() compared; long-prefix family for periods up to 64/256; lifecycle state graph (inputs + reset, de-duplicated on the concrete state) explored to a fixpoint where finite, reset() checked in every reachable state, finite graphs cross-checked with stateright.",
            "De-duplication assumes equal bincode+Debug state implies equal futures; every reported difference is a real execution.",
            "DESIGN.md 4/C04"),
    "C05": ("model_checking",
            "exhaustive schedule enumeration with a controlled scheduler over real OS threads; oracle = bit-identical to fresh sequential replay",
            "For all 22 indicators (periods 1,3) and every history up to depth 3 at which a clone is taken: all 90 interleavings of 2-operation continuations on {original, clone, unrelated instance}; every assignment of the 6 steps to 2 (thorough: 3) real worker threads up to renaming for three canonical interleavings, clone taken on either worker; every pair of continuations for original and clone; each output must be bit-identical to a fresh instance replaying that object's own operations; every part on an exact and an inexact alphabet; clone followed by every continuation of n+2 inputs (periods 1..5/6); lifecycle state graph with clone() checked in every reachable state. A sampled free-running 16-thread stage is supplementary and labelled as sampling.",
            "Operation-level atomicity is complete only while instances share no memory; a syntactic audit of /repo/src re-checks that premise on every run and the evidence says so if it trips. Merges x assignments are covered as a union of slices, not the full product.",
            "DESIGN.md 2.3, 4/C05"),
    "C06": ("model_checking",
            "bounded-exhaustive history enumeration; every prefix a checkpoint (crash point), de-duplicated by concrete state; differential oracle original-by-replay vs restored copy",
            "For all 22 indicators (periods 1..4): every history over values, NaN and resets up to depth 4/6 is a checkpoint; the real object is serialized with bincode and restored once and twice; every continuation of n+2 inputs is fed to the original (rebuilt by replay) and both restored copies and compared at 1e-12 relative; Display/period()/multiplier() compared; long-history family for periods up to 64/257; lifecycle state graph with the round trip checked in every reachable state; every lattice DataItem that build() accepts round-trips to an equal value.",
            "bincode only; continuation alphabet of 3 finite values.",
            "DESIGN.md 4/C06"),
    "C07": ("model_checking",
            "bounded-exhaustive sequence enumeration + exhaustive orderings of macro-step regimes; range invariant on every state",
            "RSI, FastStochastic, SlowStochastic, MFI, ER: every sequence over positive and mixed-sign alphabets / valid bars / bars with volume for periods 1..5, and all 6^3 orderings of {up, down, one-tick, oscillation, gap, flat} segments (scalar and bar paths, volumes 1e-3..1e9); at every step whose reference denominator is non-zero the output must lie in [0,100] ([0,1]) with the stated slack.",
            "Inside a macro regime values follow a fixed generator; MFI gated at c<=1000 as the statement says.",
            "DESIGN.md 4/C07"),
    "C08": ("model_checking",
            "bounded-exhaustive enumeration of active prefixes x flat levels x stretch lengths on the real code; neutral-value invariant",
            "All 22 indicators, periods 1..8: every active prefix over {2,0.3,1e6,7.7,1e9} up to depth 4 (3 for exponential-memory kinds at small periods), five flat levels, scalar / one-price-bar / same-bar / zero-volume stretches of every length up to 64..1300 (thorough 600..6000): at every step with a degenerate reference window the output must be finite, in range and neutral where a neutral value is documented.",
            "Finite prefix alphabet; stretch lengths bounded (long enough for period<=3 exponential averages to underflow).",
            "DESIGN.md 4/C08"),
    "C09": ("model_checking",
            "bounded-exhaustive sequence enumeration on the real code; invariants evaluated in every state",
            "SD/MAD >= 0 and not NaN, TR/ATR >= 0, Minimum <= Maximum (paired run), lower <= average <= upper (BB, KC), ChandelierExit inside the reference window extremes, histogram = line - signal (MACD, PPO), SMA/WMA inside the window hull, EMA inside the history hull: checked on every state of seq(S_int+reset, 7/9), seq(S_rough, 6/8), seq(B_grid+reset, 5/6) for periods 1..5 and multipliers {0,0.5,2,1e6}, plus all 5^3 orderings of cancellation-prone macro regimes at three scales.",
            "Finite alphabets, depth-bounded; hull/band/histogram relations allowed the tau(t)*M slack the statement grants.",
            "DESIGN.md 4/C09"),
    "C10": ("model_checking",
            "bounded-exhaustive enumeration of bar sequences with independently varying fields; differential oracles (bar vs scalar path, perturbed undocumented fields, alternative implementors)",
            "All 22 indicators, periods {1,3}: all 8^5 (8^6) sequences over bars whose five fields are pairwise distinct and not valid OHLC: Next<&T> vs Next<f64> on the documented field; every undocumented field replaced (all at once finite/NaN, one at a time) must not change any output; a second implementor storing integers, DataItem on valid bars, one-price bars vs scalar path; minimal-trait user types compiled and run from /verif/surface.",
            "Finite bar alphabet; documented field sets taken from the property statement.",
            "DESIGN.md 4/C10"),
    "C11": ("model_checking",
            "exhaustive enumeration of constructor arguments + bounded-exhaustive histories for accessor stability",
            "Every single-period constructor on every period 0..=4096, every multi-period constructor on all tuples over 0..=24 (and every period 0..=4096 in each position), multipliers {2,0,-1,NaN,1e300}, boundary periods 2^31, 2^32, 2^53+1, usize::MAX-1, usize::MAX for allocation-free indicators, each under catch_unwind with overflow checks: Err(InvalidParameter) iff some period is 0; period()/multiplier()/Display equal the arguments after every operation of every history (depth 4/5); Default::default() vs new(documented defaults) output-by-output.",
            "Windowed constructors are tried only up to 4096 (memory); periods between 4096 and 2^31 are not enumerated.",
            "DESIGN.md 4/C11"),
    "C12": ("model_checking",
            "bounded-exhaustive enumeration of special-value sequences + deviation-bounded fault injection (special value / reset at every position) on the real code under catch_unwind",
            "All 22 indicators: all sequences over {1.0, NaN, +-inf, +-f64::MAX, 5e-324, -0.0, inconsistent bars, reset} up to depth 5/6 for periods 1..4 and multipliers {2,0,-1,NaN,1e300,inf}; for every period 1..64 a default stream of 3n+3 inputs at every prefix length and with every special value or reset injected at every position (pairs of positions for n<=16 in thorough); periods 100, 257, 1000, 4096 at wrap-around positions; one long run (3e5 / 1.2e6 calls) per indicator and period 1..64; Display, Debug, clone and bincode serialization invoked in every final state; built with overflow checks and debug assertions.",
            "No panic is the only oracle; covers cursor arithmetic for periods 1..64 completely (input-independent cursors).",
            "DESIGN.md 4/C12"),
    "C13": ("exploration",
            "systematic enumeration of long generated streams (all orderings of regime segments x periods x scales) on the real code vs recomputation from the harness's own window",
            "SMA, WMA, SD, BB, MAD, CCI, MFI, MIN, MAX over streams of 1e5 (quick) / 2e6 (thorough) inputs without reset: all orderings of {alternating extremes, saw-tooth, LCG walk, plateau, spikes} segments, periods up to 1000, band bases 1e-3..1.1e6; compared at every 997th step, around segment boundaries and at the end with a from-scratch double-double evaluation of the current window at tau(t)*M.",
            "A designed family of long streams, not all streams; regime contents follow fixed generators.",
            "DESIGN.md 4/C13"),
    "C14": ("model_checking",
            "bounded-exhaustive enumeration of streams x transforms; metamorphic oracle on paired real runs",
            "All indicators except RSI, periods {1,2,3,5}: all positive scalar streams of length 6/7 and bar streams of length 4/5, each re-run on c*x for powers of two (quick 6, thorough all 80 in 2^-40..2^40) and 3, 0.1, 7.3, 1e-3, and on x+d for d in {0.5,1,100}; price-valued outputs scale/shift, dimensionless ones are unchanged at 1e-12 (powers of two) / 1e-9 (x condition number) tolerance; Maximum(x) = -Minimum(-x) exactly on all mixed-sign streams of length 8/9.",
            "SD and Bollinger half-widths are compared as variances (the well-conditioned form).",
            "DESIGN.md 4/C14"),
    "C15": ("model_checking",
            "bounded-exhaustive sequence enumeration; differential oracle composite vs hand-wired public parts (all real code)",
            "BB, SlowStochastic, ATR, MACD, PPO, KeltnerChannel, ChandelierExit, CCI vs separately constructed SMA, SD, EMA, FastStochastic, TrueRange, ATR, Minimum, Maximum, MAD fed the same stream and combined as documented: all 9^6 (9^7) scalar streams over a mixed-sign/rough alphabet and all 10^5 (10^6) valid-bar streams, periods {1,2,3,5,14}, multipliers {2,0,0.5,3}.",
            "Differential against the crate's own parts: a defect shared by a part and the composite is C01-C03's business.",
            "DESIGN.md 4/C15"),
    "C16": ("model_checking",
            "explicit-state enumeration of the builder state machine (all abstract states, all transitions, all setter orders) against a reference predicate",
            "All 11^5 abstract builder states, all 50 setter transitions out of each, all 120 setter orders on all 10^5 complete lattice tuples, all setter sequences with repetition up to length 6/7 over {-1,1,NaN}; all tuples over nearly-equal prices; build() compared with the reference predicate, the two errors distinguishable, getters bit-exact (also through &&DataItem), clone ==; graph cross-checked with stateright.",
            "Exhaustive over the 10-value lattice (every order type of the prices, every sign class of volume); other finite values not enumerated.",
            "DESIGN.md 4/C16"),
    "C17": ("model_checking",
            "bounded-exhaustive enumeration of (prefix, suffix) pairs; differential oracle vs fresh instance fed only the suffix",
            "SMA, WMA, SD, MAD, MIN, MAX, FAST_STOCH, BB, CCI (suffix n) and ROC, ER, MFI (suffix n+1), periods 1..4: every prefix over ordinary values and spikes 1e3..7e6 (incl. negative) up to depth 3/4 x every suffix over {1,2,4,7} of length w..w+1 (w+2); exact for comparison-only indicators, tau(t)*M (variances, condition numbers) for accumulating ones.",
            "Finite alphabets; periods 1..4.",
            "DESIGN.md 4/C17"),
    "C18": ("exploration",
            "bounded-exhaustive short sequences (serialized size in every state) + systematic enumeration of long generated streams with a counting global allocator",
            "All 22 indicators: bincode length in every state of every sequence over 3 symbols up to depth min(3n+3, 10/13) for periods 1..4; long runs (all 25 ordered pairs of {up, down, alternating, flat, walk} segments, 2e4 / 5e5 inputs each, periods up to 257 / 512): serialized length at checkpoints and live heap bytes of the executing thread after warm-up vs after every segment, both bounded by 256 + 64*sum(periods); variants with periodic reset(), one NaN input, and continuation on a bincode-restored copy.",
            "Designed family of stream shapes; heap measured per thread.",
            "DESIGN.md 4/C18"),
}

# stages added after the table above was written (seeding rounds 3-6); appended to the level note
ADDED = {
    "C01": "Also: 2^-60-unit, ulp-neighbour and mixed scalar/bar alphabets, reset() as a deviation in the large-period families, periods 65537/100000 (the latter with a full window), Default instances, every history replayed with the instance serialized+restored / cloned / copied with clone_from (same parameters, larger periods) / a chain of those right before the last operation and before a preceding reset(), and prices of 1e308..1.2e308 judged after exact scaling by 2^-600 - there SMA, WMA, SD and BB overflow an intermediate (KNOWN-FINDING lines K1-K4, exit 0) while MAD/MIN/MAX are exact. Round 12b: deep three-level sequences (depth 10/12) for periods 3..8; MIN/MAX at periods 9 and 17 (thorough up to 33) under every set of <= 3 tie-producing deviations on four base streams (props/devfam.rs), scalar and bar path, exact window scan; stateright cross-check capped. Round 13: alphabet S_near (values 1e-10 relative apart), multipliers 2.618 / 0.1. Round 15 (thorough tier): 2^32+2048 calls on one instance for 6 configurations, every step around the wrap against the reference.",
    "C02": "Also: 2^-60-unit alphabets, mixed scalar/bar streams, periods up to usize::MAX, unvalidated (inverted) bars, very long runs against an incremental double-double recursion, the identity transformations (serde, clone, clone_from, chain) before the last operation, and prices near f64::MAX (KeltnerChannel's typical price overflows on bars: KNOWN-FINDING K5, exit 0). Round 13: one EMA instance fed 2^32+16 inputs with every step checked against the recursion on its own previous output; multipliers 2.618 / 0.1.",
    "C03": "Also: S_huge (1e307), spike, tiny-unit and mixed alphabets, MFI alphabets with equal typical prices and with reset, huge EMA periods, very long runs (incl. CCI/MFI against the recomputed window), the identity transformations before the last operation. Round 12b: multi-deviation families (k <= 2, thorough k <= 3) at period 9 (thorough 17) for FastStoch/SlowStoch/CCI/MFI/ER/ROC.",
    "C04": "Also: long-prefix family to period 256, lifecycle state graph with reset checked in every reachable state (stateright cross-check), periods 2^32+2 and usize::MAX. Round 15: a negative-price continuation symbol.",
    "C05": "Also: long continuations with reset histories, clone_from, ambient-state stage (flush-to-zero disturbance, subnormal stream, rebuilt instances), inexact and zero-containing alphabets, Default vs new(reported parameters), lifecycle clone graph, period sweep against digests computed in fresh processes (process-global tables), period 8192 twins and (sampling) under load. Round 14: the fresh-process period sweep also covers large periods up to 100003; the ambient-state scenarios also with a non-finite first input (after new and after reset).",
    "C06": "Also: continuations containing reset(), long-history family to period 257, period 70000 with checkpoints around 65536 and the full window, lifecycle serde graph, DataItems with fractional/huge volumes. Round 13: for every period up to 1100 / 2000 a round trip after a full window plus one input, 24 more inputs on both copies. Round 15: DataItems over computed off-grid values through JSON (exact float parsing).",
    "C07": "Also: S_wide, S_huge, ulp-neighbour and subnormal alphabets, huge EMA periods, MFI alphabet with reset, 8 regimes incl. outlier and stair, runs of several thousand steps, the identity transformations before the last operation. Round 12b: multi-deviation families (<= 3 tie-producing deviations at every set of positions, four base streams) at periods 9 and 17 (thorough up to 33), scalar and bar path. Round 13: ER and RSI fed bars (grid alphabet, tick walks, deviation families).",
    "C08": "Also: reset() as a prefix symbol, prefixes fed through the other input path, stretches alternating scalar / one-price bar, prefixes followed by a serde round trip / clone / clone_from, negative levels, levels 1e200/1e-200/1e300 from the start, price sweep 0.01..20.00. Round 13: flat stretches after 2^22+4096 inputs on one instance. Round 15: flat levels 1e-307, 3e-308, 1.5e-323.",
    "C09": "Also: tiny-unit, negative-price and mixed scalar/bar alphabets, huge periods, the identity transformations before the last operation, and finite values at both ends of the f64 range (SMA/WMA/SD/BB/ATR/KC overflow there: KNOWN-FINDING lines K6-K11, exit 0; MAD, EMA, TR, MIN/MAX hold). Round 12b: deep three-level sequences (depth 10-11 / 12-13) for periods 3..8. Round 13: constant off-grid streams and a tick-grid walk of 2^22+4096 inputs on one instance, every step judged.",
    "C10": "Also: quiet streams, a 30000/200000-bar stream of two-decimal prices with flat stretches, near-extreme DataItems, one-price alphabets with ulp neighbours and negative/zero Keltner multipliers, both input paths mixed on one instance, minimal-trait types compiled and run. Round 13: DataItems obtained by deserialization (any five numbers, opens outside the range) against a plain struct.",
    "C11": "Also: multipliers 2.71828, 1e-5, 1e305, -0.0, inf; windowed constructors up to 2^25; accessors re-checked on clones, restored copies and clone_from targets after every operation; Default (also reset/cloned/formatted first) vs new on negative inputs. Round 14: SlowStochastic x every power of two +-1 in the EMA position, MACD/PPO over 13^3 triples of wrapping magnitudes.",
    "C12": "Also: periods 65536/100000, clone_from, calls on restored (deserialized) copies, Default::default() instances (incl. the empty history), flat runs around a reset for all run lengths up to 2n+2. Round 12b: multi-deviation families (<= 3 deviations) at periods 9 and 17 (thorough 9..33) for every indicator with a period. Round 13: every period 1..=1100 and powers of two +-1 up to 2^16. Round 15: thorough tier: 2^32+2048 calls on one instance for 17 configurations must not panic (overflow checks on).",
    "C13": "Also: regimes stair (equal typical price, different bar composition), short saw-tooth, tri4, zero-mix; bases down to 3e-7; single-regime runs for periods 2 and 3; bar-path runs of the close-/low-/high-reading indicators; MFI zero volumes. Round 13: 2.1 M / 4.2 M-step runs for every subject at periods 3 and 14.",
    "C14": "Also: streams with reset, a 1e6 spike symbol, prices around 1e300 scaled by 2^21 for indicators without running sums, period 6001, Maximum(x) = -Minimum(-x) on streams with reset (Maximum transformed before each reset). Round 13: bars with tied typical prices and different shapes under exactly representable factors.",
    "C15": "Also: bar inputs for BB/MACD/PPO, streams with reset (composite also transformed before each reset), mixed scalar/bar streams, unvalidated bars, 2^-60-unit alphabets, periods up to 257 and the documented defaults with the composite serialized+restored / cloned / clone_from'd mid-stream, Default composites against parts wired from the reported parameters. Round 13: composite vs parts at every step of a 2^22+4096-input walk; multiplier 2.618.",
    "C17": "Also: reset() as a prefix symbol, spikes 1e9 and 3.7e10, zero-volume and inexact MFI bars, large-period family, a high-price-level alphabet (1e7 with spread 0.01), the identity transformations before the last input and before a prefix-ending reset; SD / Bollinger half-widths are judged at tau(t)*M on the value, the variance reading being kept only for the residue of an evicted outlier (DESIGN.md section 8). Round 13: long-running instance (2^22+4096 inputs) vs fresh instance around every power of two. Round 15 (thorough tier): 2^32+2048 calls on one instance for 8 configurations vs a fresh instance fed the last window at every step around the wrap.",
    "C18": "Also: reset in the short alphabet; variants: periodic / single reset, one NaN, HugePair (1e154), zero-mix, mixed input paths, clone_from into a larger instance, replacement by a clone / restored copy eight times per segment, Default instances of all 22 indicators against the bound of the parameters they report. Round 13: NaN-burst variant. Round 15: runs of 3000 -inf / +inf inputs.",
}

NOT_YET = "check not built yet in this revision of /verif (work in progress; see DESIGN.md section 4)"
NA = {
    "C19": "compile-time trait-surface fact decided by the type checker; there is no behaviour, state or schedule to enumerate, so model checking does not apply (DESIGN.md 4/C19)",
}

def main():
    props = [json.loads(l) for l in open('/verif/properties.jsonl')]
    checks, na = [], []
    for p in props:
        i = p['id']
        if i in BUILT:
            cat, tech, text, note, ref = BUILT[i]
            if i in ADDED:
                note = note + " " + ADDED[i]
            checks.append({
                "property_id": i,
                "quick_cmd": f"./run check {i} quick",
                "thorough_cmd": f"./run check {i} thorough",
                "evidence_file": f"/verif/evidence/{i}.json",
                "replay_cmd_template": "./run replay {path}",
                "engine": "mc",
                "level_claimed": {"category": cat, "text": text, "design_ref": ref},
                "level_note": note,
                "technique": tech,
            })
        else:
            na.append({"property_id": i, "reason": NA.get(i, NOT_YET)})
    m = {
        "version": 1,
        "setup_cmd": "./run setup",
        "hooks": {
            "guard": "ta_verif",
            "enable": "none needed: the harness drives the public API of /repo (path dependency, feature serde); no hook commits exist",
            "baseline_off_cmd": "cd /repo && cargo test --workspace --no-fail-fast --offline",
            "source_commits": [],
            "add_only": True,
        },
        "engines": [
            {"name": "mc", "path": "/verif/mc", "serves_properties": sorted(BUILT.keys()),
             "kind_free_text": "Rust harness: replay-based bounded-exhaustive sequence explorer, explicit-state BFS keyed on the real object's bincode+Debug state, controlled OS-thread scheduler, stateright cross-check; reference models in double-double arithmetic"},
        ],
        "checks": checks,
        "not_applicable": na,
        "notes": "Exit 0 = held on everything explored (KNOWN-FINDING lines possible), 1 = VIOLATION line, 2 = machinery problem (build failure, vacuity, engine disagreement). Known findings: /verif/known_findings.json.",
    }
    json.dump(m, open('/verif/MANIFEST.json', 'w'), indent=1)
    try:
        import jsonschema
        jsonschema.validate(m, json.load(open('/root/.vp/MANIFEST.schema.json')))
        print("MANIFEST.json valid;", len(checks), "checks,", len(na), "not_applicable")
    except ImportError:
        print("written (jsonschema not available to validate)")

if __name__ == '__main__':
    main()
