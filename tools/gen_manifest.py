#!/usr/bin/env python3
"""Regenerates /verif/MANIFEST.json from the table below (single source of truth)."""
import json, os, sys

BUILT = {
    # id: (category, technique, text, note, design_ref)
    "C01": ("model_checking",
            "bounded-exhaustive sequence enumeration + explicit-state BFS fixpoint on the real code vs reference model",
            "Every operation sequence over S_int+reset (depth 8/10) and S_rough (depth 6/8) for periods 1..5 replayed on fresh real instances and compared with a from-scratch double-double statistic of the last min(t,n) inputs; explicit-state fixpoint (all reachable states, all edges) for SMA/WMA/MAD/MIN/MAX over the exact alphabet; deviation-bounded families (outlier/zero at every position) for periods up to 1024.",
            "Finite value alphabets; depth-bounded for SD/BB; periods exhaustive to 5 and deviation-bounded above. Trusted: rustc IEEE semantics, the ~150-line double-double reference.",
            "DESIGN.md 4/C01"),
    "C02": ("model_checking",
            "bounded-exhaustive sequence enumeration on the real code vs from-scratch reference recursion",
            "Every scalar sequence over S_int+{7.7,1e6}+reset (depth 7/9) and every bar sequence over the 10-bar grid+reset (depth 5/7) for EMA, TrueRange, ATR, MACD (all triples over {1,2,3,7}), KeltnerChannel and ChandelierExit (multipliers 2,0,0.5,3) replayed on fresh real instances and compared with the documented recursion evaluated over the whole history in double-double; long default streams with <=1 deviation for periods up to 1024.",
            "EMA state space is unbounded, so the result is depth-bounded plus fixed long streams; valid bars only.",
            "DESIGN.md 4/C02"),
    "C03": ("model_checking",
            "bounded-exhaustive sequence enumeration on the real code vs documented formulas with condition-number gating",
            "Every sequence of positive prices (depth 8/10) / valid bars (depth 5/6) / bars with volume (depth 4/5) for RSI, FastStochastic, SlowStochastic, ROC, ER, PPO, CCI, MFI, OBV with periods 1..5 replayed on fresh instances and compared with the documented formula from scratch at tolerance tau(t)*c*scale; zero-denominator and c>1e6 steps are skipped and counted; deviation families up to period 512.",
            "Positive prices / valid bars only; finite alphabets; depth-bounded for EMA-based oscillators.",
            "DESIGN.md 4/C03"),
    "C04": ("model_checking",
            "bounded-exhaustive history enumeration with explicit-state de-duplication of post-reset states; differential oracle vs fresh instance",
            "For all 22 indicators (periods 1..4, tuples over {1,2,3}): every prefix history over values, NaN/inf/extreme values and resets up to depth 4/6, then reset(), then every continuation of length max(n+2,4) over finite values, NaN and +inf compared step by step with a fresh instance; continuations explored once per distinct post-reset concrete state (bincode+Debug); Display/period()/multiplier() compared; long-prefix family for periods up to 64/256.",
            "De-duplication assumes equal bincode+Debug state implies equal futures; every reported difference is a real execution.",
            "DESIGN.md 4/C04"),
}

NOT_YET = "check not built yet in this revision of /verif (work in progress; see DESIGN.md section 4)"
NA = {
    "C19": "compile-time trait-surface fact decided by the type checker; there is no behaviour, state or schedule to enumerate, so model checking does not apply (DESIGN.md 4/C19)",
}

def main():
    props = [json.loads(l) for l in open('/verif/properties.jsonl')]
    checks, na = [], []
    for p in props:
        i = p['id']
        if i in BUILT:
            cat, tech, text, note, ref = BUILT[i]
            checks.append({
                "property_id": i,
                "quick_cmd": f"./run check {i} quick",
                "thorough_cmd": f"./run check {i} thorough",
                "evidence_file": f"/verif/evidence/{i}.json",
                "replay_cmd_template": "./run replay {path}",
                "engine": "mc",
                "level_claimed": {"category": cat, "text": text, "design_ref": ref},
                "level_note": note,
                "technique": tech,
            })
        else:
            na.append({"property_id": i, "reason": NA.get(i, NOT_YET)})
    m = {
        "version": 1,
        "setup_cmd": "./run setup",
        "hooks": {
            "guard": "ta_verif",
            "enable": "none needed: the harness drives the public API of /repo (path dependency, feature serde); no hook commits exist",
            "baseline_off_cmd": "cd /repo && cargo test --workspace --no-fail-fast --offline",
            "source_commits": [],
            "add_only": True,
        },
        "engines": [
            {"name": "mc", "path": "/verif/mc", "serves_properties": sorted(BUILT.keys()),
             "kind_free_text": "Rust harness: replay-based bounded-exhaustive sequence explorer, explicit-state BFS keyed on the real object's bincode+Debug state, controlled OS-thread scheduler, stateright cross-check; reference models in double-double arithmetic"},
        ],
        "checks": checks,
        "not_applicable": na,
        "notes": "Exit 0 = held on everything explored (KNOWN-FINDING lines possible), 1 = VIOLATION line, 2 = machinery problem (build failure, vacuity, engine disagreement). Known findings: /verif/known_findings.json.",
    }
    json.dump(m, open('/verif/MANIFEST.json', 'w'), indent=1)
    try:
        import jsonschema
        jsonschema.validate(m, json.load(open('/root/.vp/MANIFEST.schema.json')))
        print("MANIFEST.json valid;", len(checks), "checks,", len(na), "not_applicable")
    except ImportError:
        print("written (jsonschema not available to validate)")

if __name__ == '__main__':
    main()
