#!/usr/bin/env python3
"""Mutation / seeded-change audit.

For every patch under /verif/seeded/*/patch.diff and /verif/mutants/*.patch:
  1. apply it to /repo (git apply), refusing to start on a dirty tree;
  2. run the repository's own test suite (must stay green - premise of the audit);
  3. run the quick tier of every claimed check (or only --checks ...), recording exit
     code and the VIOLATION line;
  4. revert the patch (git apply -R) and verify the tree is clean again.
Writes /verif/evidence/mutation_audit.json (a report, not a per-property evidence file).

With --scratch the whole audit runs on a scratch worktree of /repo plus a copy of
the harness under /tmp/audit (removed afterwards), so /repo and /verif/evidence are
never touched and work on /verif can continue; without it the patch is applied to
/repo itself (the way a seeded change is confirmed).

usage: tools/audit.py [--scratch] [--target-only] [--only <substr>] [--checks C01,C05] [--tier quick|thorough] [--no-baseline] [--targets C01,C07] [--shard k/n --report f]
"""
import glob, json, os, re, subprocess, sys, time

REPO = "/repo"
VERIF = "/verif"
SCRATCH = None
ENV = dict(os.environ)


def sh(cmd, cwd=None, timeout=3600):
    p = subprocess.run(cmd, shell=True, cwd=cwd, stdout=subprocess.PIPE, stderr=subprocess.STDOUT, timeout=timeout, env=ENV)
    return p.returncode, p.stdout.decode(errors="replace")


def clean():
    rc, out = sh("git status --porcelain", cwd=REPO)
    return out.strip() == ""


def main():
    args = sys.argv[1:]
    only = None
    checks = None
    tier = "quick"
    baseline = True
    scratch = False
    target_only = False
    report_override = None
    shard = None
    targets = None
    names = None
    i = 0
    while i < len(args):
        if args[i] == "--only":
            only = args[i + 1]; i += 2
        elif args[i] == "--checks":
            checks = args[i + 1].split(","); i += 2
        elif args[i] == "--tier":
            tier = args[i + 1]; i += 2
        elif args[i] == "--no-baseline":
            baseline = False; i += 1
        elif args[i] == "--scratch":
            scratch = True; i += 1
        elif args[i] == "--target-only":
            target_only = True; i += 1
        elif args[i] == "--report":
            report_override = args[i + 1]; i += 2
        elif args[i] == "--names":
            names = set(l.strip() for l in open(args[i + 1]) if l.strip()); i += 2
        elif args[i] == "--targets":
            targets = set(args[i + 1].split(",")); i += 2
        elif args[i] == "--shard":
            shard = tuple(int(x) for x in args[i + 1].split("/")); i += 2
        else:
            print(__doc__); sys.exit(2)
    manifest = json.load(open(f"{VERIF}/MANIFEST.json"))
    all_checks = [c["property_id"] for c in manifest["checks"]]
    patches = sorted(glob.glob(f"{VERIF}/seeded/*/patch.diff")) + sorted(glob.glob(f"{VERIF}/mutants/*.patch"))
    if only:
        patches = [p for p in patches if only in p]
    if names:
        patches = [p for p in patches if (os.path.basename(os.path.dirname(p)) if p.endswith("patch.diff") else os.path.basename(p)[:-6]) in names]
    if targets:
        def target_of(p):
            mp = os.path.join(os.path.dirname(p), "meta.json")
            if p.endswith("patch.diff") and os.path.exists(mp):
                t = json.load(open(mp)).get("property")
                if t:
                    return t
            name = os.path.basename(os.path.dirname(p)) if p.endswith("patch.diff") else os.path.basename(p)
            m = re.match(r"(C\d+)", name)
            return m.group(1) if m else None
        patches = [p for p in patches if target_of(p) in targets]
    if shard:
        patches = [p for k, p in enumerate(patches) if k % shard[1] == shard[0]]
    global REPO
    run_cmd = "./run check {c} {tier}"
    run_cwd = VERIF
    if scratch:
        tag = str(os.getpid())
        root = f"/tmp/audit{tag}"
        sh(f"rm -rf {root}; mkdir -p {root}/out/evidence {root}/out/replays")
        rc, out = sh(f"git -C /repo worktree add -q --detach {root}/repo HEAD")
        if rc != 0:
            print("cannot create scratch worktree:", out); sys.exit(2)
        sh(f"mkdir -p {root}/mc {root}/surface && cp -r {VERIF}/mc/src {VERIF}/mc/Cargo.toml {VERIF}/mc/Cargo.lock {VERIF}/mc/.cargo {root}/mc/ && cp -r {VERIF}/surface/src {VERIF}/surface/Cargo.toml {VERIF}/surface/Cargo.lock {VERIF}/surface/.cargo {root}/surface/")
        sh(f"sed -i 's|path = \"/repo\"|path = \"{root}/repo\"|' {root}/mc/Cargo.toml {root}/surface/Cargo.toml")
        sh(f"sed -i 's|target-dir = .*|target-dir = \"{root}/target\"|' {root}/mc/.cargo/config.toml {root}/surface/.cargo/config.toml")
        REPO = f"{root}/repo"
        ENV.update({"CARGO_TARGET_DIR": f"{root}/target", "VERIF_OUT_DIR": f"{root}/out", "VERIF_SURFACE_DIR": f"{root}/surface", "VERIF_REPO_DIR": REPO, "CARGO_NET_OFFLINE": "true"})
        run_cmd = f"cargo build --release --offline -q 2>&1 | tail -n 30; {root}/target/release/mc check {{c}} {{tier}}"
        run_cwd = f"{root}/mc"
        rc, out = sh("cargo build --release --offline 2>&1 | tail -n 5", cwd=run_cwd)
        print("scratch build:", out.strip().splitlines()[-1] if out.strip() else rc)
    if not clean():
        print("refusing: working tree is not clean"); sys.exit(2)
    report_path = report_override or f"{VERIF}/evidence/mutation_audit.json"
    scratch_root = os.path.dirname(REPO) if scratch else None
    report = {}
    if os.path.exists(report_path) and (only or checks or target_only):
        try:
            report = json.load(open(report_path)).get("patches", {})
        except Exception:
            report = {}
    # evidence files are rewritten by every check run: keep the unmutated ones
    saved = {}
    if not scratch:
        for f in glob.glob(f"{VERIF}/evidence/C*.json"):
            saved[f] = open(f).read()
    try:
        for p in patches:
            name = os.path.basename(os.path.dirname(p)) if p.endswith("patch.diff") else os.path.basename(p)[:-6]
            meta = {}
            mp = os.path.join(os.path.dirname(p), "meta.json")
            if p.endswith("patch.diff") and os.path.exists(mp):
                meta = json.load(open(mp))
            target = meta.get("property") or (re.match(r"(C\d+)", name).group(1) if re.match(r"(C\d+)", name) else None)
            rc, out = sh(f"git apply --whitespace=nowarn {p}", cwd=REPO)
            if rc != 0:
                print(f"{name}: patch does not apply: {out.strip()[:200]}")
                report[name] = {"error": "patch does not apply", "target": target}
                continue
            entry = {"target": target, "results": {}, "detected_by": []}
            if name in report and isinstance(report[name].get("results"), dict) and (only or checks or target_only):
                # partial re-run: keep earlier results of checks not re-run now
                entry["results"] = dict(report[name]["results"])
                for k in ("baseline", "baseline_ok"):
                    if k in report[name]:
                        entry[k] = report[name][k]
            try:
                if baseline:
                    rc, out = sh("cargo test --offline 2>&1 | grep -E '^test result' | head -1", cwd=REPO)
                    entry["baseline"] = out.strip()
                    if "0 failed" not in out or "136 passed" not in out:
                        entry["baseline_ok"] = False
                        print(f"{name}: BASELINE NOT GREEN with the patch: {out.strip()}")
                    else:
                        entry["baseline_ok"] = True
                run = checks or all_checks
                if target_only and target:
                    run = [target]
                for c in run:
                    t0 = time.time()
                    rc, out = sh(run_cmd.format(c=c, tier=tier), cwd=run_cwd, timeout=7200)
                    vio = [l for l in out.splitlines() if l.startswith("VIOLATION")]
                    first = [l.strip() for l in out.splitlines() if "first violation" in l]
                    entry["results"][c] = {"exit": rc, "violation": vio[0] if vio else None, "first": first[0][:400] if first else None, "wall_s": round(time.time() - t0, 1)}
                    if rc == 1 and vio:
                        entry["detected_by"].append(c)
                    if rc not in (0, 1):
                        entry["results"][c]["output_tail"] = out[-600:]
                entry["detected_by"] = sorted(c for c, r in entry["results"].items() if r.get("exit") == 1 and r.get("violation"))
                entry["target_detected"] = (target in entry["detected_by"]) if target else None
                print(f"{name}: target={target} detected_by={entry['detected_by']} target_detected={entry['target_detected']}")
            finally:
                rc, out = sh(f"git apply -R --whitespace=nowarn {p}", cwd=REPO)
                if rc != 0 or not clean():
                    print(f"FATAL: could not revert {p}: {out}")
                    sys.exit(2)
            report[name] = entry
    finally:
        for f, text in saved.items():
            open(f, "w").write(text)
        if scratch:
            sh(f"git -C /repo worktree remove --force {REPO}")
            sh(f"rm -rf {scratch_root}")
    existing = set(os.path.basename(os.path.dirname(p)) if p.endswith("patch.diff") else os.path.basename(p)[:-6] for p in (sorted(glob.glob(f"{VERIF}/seeded/*/patch.diff")) + sorted(glob.glob(f"{VERIF}/mutants/*.patch"))))
    if not shard:
        report = {k: v for k, v in report.items() if k in existing}
    json.dump({"generated_by": "tools/audit.py", "tier": tier, "patches": report}, open(report_path, "w"), indent=1)
    missed = [n for n, e in report.items() if e.get("target_detected") is False]
    print(f"audited {len(report)} patches; target property missed for: {missed}")


if __name__ == "__main__":
    main()
