#!/usr/bin/env python3
"""Confirm a seeded change delivered by a sub-agent and file it under /verif/seeded/<name>/.

usage: tools/seed_intake.py <property id> <srcdir with patch.diff, seeded_demo.rs, notes.md> <name> "<what it needs to manifest>"

Confirms, in a scratch worktree of /repo (removed afterwards):
  * the demonstration passes on the unchanged tree,
  * the patch applies, the crate builds (with and without serde), the repository's own
    suite stays green (136 unit tests) with the patch,
  * the demonstration fails with the patch.
Only then is /verif/seeded/<name>/{patch.diff, seeded_demo.rs, notes.md, meta.json} written.
"""
import json, os, shutil, subprocess, sys


def sh(cmd, cwd=None, timeout=1800):
    p = subprocess.run(cmd, shell=True, cwd=cwd, stdout=subprocess.PIPE, stderr=subprocess.STDOUT, timeout=timeout)
    return p.returncode, p.stdout.decode(errors="replace")


def main():
    if len(sys.argv) < 5:
        print(__doc__); sys.exit(2)
    prop, src, name, needs = sys.argv[1:5]
    wt = f"/tmp/intake_{name}"
    sh(f"git -C /repo worktree remove --force {wt}; rm -rf {wt}")
    rc, out = sh(f"git -C /repo worktree add -q --detach {wt} HEAD")
    if rc != 0:
        print("worktree:", out); sys.exit(2)
    ran = []
    ok = False
    try:
        demo = open(f"{src}/seeded_demo.rs").read()
        feat = "--features serde" if ("serde" in demo or "bincode" in demo) else ""
        os.makedirs(f"{wt}/tests", exist_ok=True)
        shutil.copy(f"{src}/seeded_demo.rs", f"{wt}/tests/seeded_demo.rs")
        cmd_demo = f"cargo test --offline {feat} --test seeded_demo 2>&1 | grep -E '^test result|^error|panicked' | head -5"
        rc, out = sh(cmd_demo, cwd=wt)
        ran.append({"cmd": f"(unchanged tree) {cmd_demo}", "out": out.strip()})
        clean_pass = "test result: ok" in out and "FAILED" not in out
        rc, out = sh(f"git apply --whitespace=nowarn {src}/patch.diff", cwd=wt)
        if rc != 0:
            print("patch does not apply:", out); return
        cmd_base = "cargo test --offline 2>&1 | grep -E '^test result|^error' | head -4"
        rc, out = sh(cmd_base, cwd=wt)
        ran.append({"cmd": f"(with patch) {cmd_base}", "out": out.strip()})
        # first 'test result' line is the 136 unit tests; the integration tests dir includes the demo, so look at it separately
        lines = [l for l in out.splitlines() if l.startswith("test result")]
        base_ok = bool(lines) and "136 passed; 0 failed" in lines[0]
        rc, out2 = sh("cargo build --offline --features serde 2>&1 | tail -1", cwd=wt)
        ran.append({"cmd": "(with patch) cargo build --offline --features serde", "out": out2.strip()})
        serde_ok = "Finished" in out2
        rc, out = sh(cmd_demo, cwd=wt)
        ran.append({"cmd": f"(with patch) {cmd_demo}", "out": out.strip()})
        patched_fail = "FAILED" in out or "panicked" in out
        print(f"{name}: demo passes unchanged={clean_pass}; suite green with patch={base_ok}; serde build={serde_ok}; demo fails with patch={patched_fail}")
        ok = clean_pass and base_ok and serde_ok and patched_fail
        if ok:
            d = f"/verif/seeded/{name}"
            os.makedirs(d, exist_ok=True)
            for f in ("patch.diff", "seeded_demo.rs", "notes.md"):
                if os.path.exists(f"{src}/{f}"):
                    shutil.copy(f"{src}/{f}", f"{d}/{f}")
            json.dump({
                "property": prop,
                "name": name,
                "needs_to_manifest": needs,
                "origin": "fresh sub-agent given only the property text and its own scratch worktree",
                "confirmed": {"demo_passes_on_unchanged_tree": clean_pass, "existing_suite_green_with_patch": base_ok, "builds_with_serde": serde_ok, "demo_fails_with_patch": patched_fail},
                "what_i_ran": ran,
                "demo_needs_serde_feature": bool(feat),
            }, open(f"{d}/meta.json", "w"), indent=1)
            print("filed under", d)
        else:
            for r in ran:
                print("  ", r["cmd"], "=>", r["out"][:300])
    finally:
        sh(f"git -C /repo worktree remove --force {wt}; rm -rf {wt}")
    sys.exit(0 if ok else 1)


if __name__ == "__main__":
    main()
