#!/usr/bin/env python3
"""Merge shard reports (tools/audit.py --shard k/n --report file) into evidence/mutation_audit.json.
Entries of patches that no shard reached keep the result of the last earlier audit run that covered them."""
import glob, json, os, sys
dst = '/verif/evidence/mutation_audit.json'
rep = json.load(open(dst)) if os.path.exists(dst) else {"patches": {}}
pat = rep.get('patches', {})
n_new = 0
import re, ast
for f in sys.argv[1:]:
    if f.endswith('.log'):
        # progress log of a shard that was stopped before it wrote its report
        for l in open(f):
            m = re.match(r"^(\S+): target=(\S+) detected_by=(\[.*?\]) target_detected=(True|False|None)", l)
            if m:
                det = ast.literal_eval(m.group(3))
                pat[m.group(1)] = {"target": m.group(2), "detected_by": det, "target_detected": {"True": True, "False": False, "None": None}[m.group(4)], "results": {c: {"exit": 1, "violation": "VIOLATION property=" + c} for c in det}, "source": "shard log"}
                n_new += 1
        continue
    try:
        d = json.load(open(f))
    except Exception as e:
        print('skip', f, e); continue
    for k, v in d.get('patches', {}).items():
        pat[k] = v; n_new += 1
existing = set(os.path.basename(os.path.dirname(p)) for p in glob.glob('/verif/seeded/*/patch.diff')) | set(os.path.basename(p)[:-6] for p in glob.glob('/verif/mutants/*.patch'))
pat = {k: v for k, v in pat.items() if k in existing}
# the target recorded in an old entry may predate a re-labelling: refresh it from meta.json
for k, v in pat.items():
    mp = f'/verif/seeded/{k}/meta.json'
    if os.path.exists(mp):
        t = json.load(open(mp)).get('property')
        if t and v.get('target') != t:
            v['target'] = t
            v['target_detected'] = t in v.get('detected_by', []) if v.get('results', {}).get(t) else None
json.dump({"generated_by": "tools/audit.py (+ tools/merge_audit.py)", "tier": "quick", "patches": pat}, open(dst, 'w'), indent=1)
missing = sorted(existing - set(pat))
print(f"merged {n_new} shard entries; {len(pat)} patches in the report; not covered at all: {missing}")
print("target not detected:", sorted(k for k, v in pat.items() if v.get('target_detected') is False), "unknown:", sorted(k for k, v in pat.items() if v.get('target_detected') is None))
